"""C07 -- delta snapshots reconstruct the full payload exactly (clematis/engine/util/snapshot_delta.py).

Bounded part (mode="bounded", never counted as proved): the round-trip law
    apply_delta(base, compute_delta(base, curr)) == curr
is the postcondition of the composition harness contracts/_drivers.py:c07_delta_then_apply, run symbolically on
JSON objects of fixed *shapes* (pyvc/jsontree.py: python-side trees, symbolic keys in separator normal form,
atoms abstracted to their ==-class).  Every loop of the codec is unrolled, the recursion of `_walk_diff` is
inlined to the depth of the shape; the functions exercised are compute_delta, _walk_diff, apply_delta,
_set_path, _del_path (their real ASTs).  Three families, same clauses, decreasing generality of the keys:

  roundtrip(bounded)                       keys are arbitrary strings with <= 1 separator          -- THE PROPERTY
  roundtrip|keys-nonempty(bounded)         ... and no key is ""                                    -- diagnostic
  roundtrip|keys-dotfree-nonempty(bounded) no key contains "." and no key is ""                    -- diagnostic

The first two are expected to FAIL on the unchanged repository (keys "" and keys containing "." are not
representable in the dotted path codec: `{} -> {"": 1}`, `{} -> {"a.b": 1}`, `{"a": {"x": 1}, "a.x": 2} ->
{"a": {"x": 1}}`); the third isolates the defect: on separator-free non-empty keys the codec round-trips for
every pair of shapes up to depth 2 x 2 keys per level (quick tier: total key count <= 8).

Unbounded part: lemma `path_codec` (z3 / cvc5 strings):  split(join(prefix + (k,))) == prefix + (k,)  iff  no key
contains the separator and the joined path is non-empty -- the clause `_set_path` / `_del_path` rely on and the
module never establishes.
"""
import ast
import itertools
import os
import sys
from pyvc.verifier import REG as R

SD = "clematis/engine/util/snapshot_delta.py:"
DRV = os.path.join(os.path.dirname(os.path.abspath(__file__)), "_drivers.py") + ":"
THOROUGH = os.environ.get("VERIF_TIER") == "thorough" or "thorough" in sys.argv

# local variable types of the codec functions (interpreted inline from the round-trip harness)
R.loops(SD + "_walk_diff", {}, locals={"b": "JObj", "c": "JObj", "adds": "JObj", "mods": "JObj", "dels": "JList"})
R.loops(SD + "_set_path", {}, locals={"nxt": "JObj"})
R.loops(SD + "_del_path", {}, locals={"cur": "JObj"})
R.loops(SD + "apply_delta", {}, locals={"out": "JObj", "adds": "JObj", "mods": "JObj"})

NONEMPTY = ("keys-nonempty", "jkeys_nonempty(base) and jkeys_nonempty(curr)")
EMPTY_DELTA = "(len(result[0]['_adds']) == 0 and len(result[0]['_mods']) == 0 and len(result[0]['_dels']) == 0)"


def roundtrip(bshape, cshapes, family="", maxwords=2, requires=(), max_paths=40000):
    """one contract: base of shape `bshape`, curr of any of the shapes `cshapes` (forked)"""
    if isinstance(cshapes, str):
        cshapes = [cshapes]
    b = bshape.replace(" ", "")
    cs = [c.replace(" ", "") for c in cshapes]
    lab = "%s -> %s" % (b, cs[0] if len(cs) == 1 else "any of %d shapes" % len(cs))
    R.contract(
        DRV + "c07_delta_then_apply", "C07", name="roundtrip%s(bounded)" % family, label=lab,
        mode="bounded", unroll=6, callee=False, max_paths=max_paths, replay="c07_delta:roundtrip",
        types={"base": "=jtree('b', %r, %d)" % (b, maxwords), "curr": "=jtree_oneof('c', %r, %d)" % ("|".join(cs), maxwords)},
        requires=list(requires),
        ensures=[
            ("roundtrip", "result[1] == old(curr)"),
            ("inputs-untouched", "base == old(base) and curr == old(curr)"),
            ("delta-has-three-sections", "len(result[0]) == 3 and '_adds' in result[0] and '_mods' in result[0] and '_dels' in result[0]"),
            ("delta-empty-iff-equal", EMPTY_DELTA + " == (old(base) == old(curr))"),
        ],
        raises="none",
    )


# ---------------------------------------------------------------- shapes
KINDS = ["0", "[]", "[0]", "[0,0]"]          # an entry's value: atom, {}, {k: atom}, {k: atom, k': atom}


def shapes_d2k2():
    """all object shapes of depth <= 2 with <= 2 keys per level (entries are unordered: multisets)"""
    out = ["[]"] + ["[%s]" % a for a in KINDS]
    out += ["[%s,%s]" % (b, a) for a, b in itertools.combinations_with_replacement(KINDS, 2)]
    return out


def nkeys(shape):
    def cnt(x):
        return 0 if (x == 0 or x is None) else sum(1 + cnt(y) for y in x)
    return cnt(ast.literal_eval(shape))


def family(name, maxwords, requires, budget, extra=()):
    """all pairs (base, curr) of d2k2 shapes with nkeys(base) + nkeys(curr) <= budget, plus the `extra` pairs;
    one contract per base shape"""
    shapes = shapes_d2k2()
    for b in shapes:
        cs = [c for c in shapes if nkeys(b) + nkeys(c) <= budget]
        cs += [c for bb, c in extra if bb == b and c not in cs]
        if cs:
            roundtrip(b, cs, family=name, maxwords=maxwords, requires=requires)


# the three shapes of the natively confirmed counter-examples are always included
KNOWN = [("[]", "[0]"), ("[[0],0]", "[[0]]"), ("[0,0]", "[0,0]")]
# arbitrary keys (words may be empty, one separator allowed): exponentially many key layouts -> small shapes
# (quick: nkeys(base) + nkeys(curr) <= 3 plus the KNOWN pairs; thorough: <= 4, about 6 CPU-minutes per family)
family("", 2, [], 4 if THOROUGH else 3, extra=KNOWN)
family("|keys-nonempty", 2, [NONEMPTY], 4 if THOROUGH else 3, extra=KNOWN)
# separator-free keys (one word each), non-empty
family("|keys-dotfree-nonempty", 1, [NONEMPTY], 12 if THOROUGH else 8)

# JSON null atoms ("however dictionaries, lists and scalars replace one another": a key that is present and holds null is
# not an absent key): separator-free non-empty keys, shapes with `None` leaves against every small shape
_NULL_BASES = ["[None]", "[0]", "[None,0]", "[[None]]", "[[0]]", "[]"]
_NULL_CURRS = ["[]", "[0]", "[None]", "[None,0]", "[0,0]", "[None,None]", "[[None]]", "[[0]]", "[[]]", "[[None],0]"]
for _b in _NULL_BASES:
    roundtrip(_b, _NULL_CURRS, family="|null-leaves|keys-dotfree-nonempty", maxwords=1, requires=[NONEMPTY])

# ---------------------------------------------------------------- the two patch primitives on their own (bounded)
# (on deltas produced by compute_delta from separator-free keys `_set_path` never has to create an intermediate
# object, so the round trip alone does not exercise that arm)
D_SHAPES = "[]|[0]|[[0]]|[[0],0]|[[0,0]]"
R.contract(
    SD + "_set_path", "C07", name="_set_path(bounded)", mode="bounded", unroll=6, callee=False,
    types={"d": "=jtree_oneof('d', %r, 2)" % D_SHAPES, "path": "=jkey('p', 3)", "value": "int"},
    ensures=[
        ("value-stored-at-split-path", "implies(truthy(path), jpath_get(d, path) == value)"),
        ("empty-path-is-a-noop", "implies(not truthy(path), d == old(d))"),
        ("never-shrinks", "len(d) >= old(len(d))"),
    ],
    raises="none",
)
R.contract(
    SD + "_del_path", "C07", name="_del_path(bounded)", mode="bounded", unroll=6, callee=False,
    types={"d": "=jtree_oneof('d', %r, 2)" % D_SHAPES, "path": "=jkey('p', 3)"},
    ensures=[
        ("split-path-unresolvable-after", "implies(truthy(path), not jpath_has(d, path))"),
        ("empty-path-is-a-noop", "implies(not truthy(path), d == old(d))"),
        ("noop-when-unresolvable-before", "implies(not old(jpath_has(d, path)), d == old(d))"),
        ("removes-at-most-one-top-level-key", "len(d) >= old(len(d)) - 1 and len(d) <= old(len(d))"),
    ],
    raises="none",
)


# ---------------------------------------------------------------- unbounded: the path codec lemma

def _path_codec_lemma():
    """Python's `s.split(".")` (non-empty separator) is the function
            split(s) = [s]                                   if "." not in s
                     = [s[:i]] + split(s[i+1:])              with i = s.index(".")  otherwise
    and `".".join((k0, ..., kn))` = k0 + "." + join((k1, ..., kn)),  join((k,)) = k.   The codec decodes with
            dec(s) = split(s) if s else []                   (`path.split(".") if path else []`).
    Claim, for every non-empty tuple ks of strings:   dec(join(ks)) == list(ks)
                                                 iff  no k in ks contains "."  and  join(ks) != "".
    Proof by induction on len(ks) from the goals below (all strings unbounded):
      if: `step/*` peel the head when it is dot-free (first "." of k0+"."+r sits right after k0, the decoded head is
          k0, the remainder is r); `base/single-segment` closes the induction; `*/nonempty` discharge the guard.
      only if: at the first key that contains "." the decoded head is a proper prefix of it (`step/only-if...`), or,
          for the last key, the remainder splits into >= 2 segments (`base/only-if`); if the joined path is ""
          (one key, "") the decoder returns [] != [""] (`base/empty-path-decodes-to-nothing`)."""
    import z3
    DOT = z3.StringVal(".")
    k0, k1, r, k = z3.Strings("k0 k1 r k")
    dotfree = lambda x: z3.Not(z3.Contains(x, DOT))
    fast = {"z3_timeout_ms": 1500}       # z3's sequence solver gives up on str.indexof goals; cvc5 decides them
    s = z3.Concat(k0, DOT, r)
    i = z3.IndexOf(s, DOT, 0)
    goals = [
        ("step/first-dot-right-after-head", [dotfree(k0)], i == z3.Length(k0), fast),
        ("step/decoded-head-is-k0", [dotfree(k0)], z3.SubString(s, 0, z3.Length(k0)) == k0),
        ("step/remainder-is-tail", [dotfree(k0)], z3.SubString(s, z3.Length(k0) + 1, z3.Length(s) - z3.Length(k0) - 1) == r),
        ("step/only-if-first-dot-inside-head", [z3.Contains(k0, DOT)], z3.And(i >= 0, i < z3.Length(k0)), fast),
        ("step/only-if-decoded-head-differs", [z3.Contains(k0, DOT)], z3.SubString(s, 0, i) != k0, fast),
        ("step/nonempty", [], z3.Length(s) > 0),
        ("base/single-segment", [dotfree(k)], z3.IndexOf(k, DOT, 0) == -1),
        ("base/nonempty-iff-key-nonempty", [], (z3.Length(k) > 0) == (k != z3.StringVal(""))),
        ("base/only-if", [z3.Contains(k, DOT)], z3.IndexOf(k, DOT, 0) >= 0),
        ("base/empty-path-decodes-to-nothing", [k == z3.StringVal("")], z3.Not(z3.Length(k) > 0)),
    ]
    # arity-2 instance of the full statement with `split` unrolled (cross-check of the induction argument)
    s2 = z3.Concat(k0, DOT, k1)
    i0 = z3.IndexOf(s2, DOT, 0)
    rest = z3.SubString(s2, i0 + 1, z3.Length(s2) - i0 - 1)
    dec_is_k0_k1 = z3.And(i0 >= 0, z3.SubString(s2, 0, i0) == k0, z3.IndexOf(rest, DOT, 0) < 0, rest == k1)
    goals.append(("arity2/roundtrip-iff-dotfree", [], dec_is_k0_k1 == z3.And(dotfree(k0), dotfree(k1)), fast))
    return goals


R.lemma("path_codec", "C07", _path_codec_lemma)


# ---------------------------------------------------------------- frame clause: the reader is a function of the files
# "A delta-mode snapshot ... read back with its baseline present returns the full payload": what read_snapshot
# returns may depend only on its arguments and on the files it reads.  Frame obligation (Engine F, AST): neither the
# reader / the delta writer nor any same-module function they (transitively) call keeps state between calls --
# no `global` / `nonlocal` rebinding, no reference to a module-level *mutable container* (dict / list / set /
# OrderedDict / defaultdict / deque literal or constructor), no memoising decorator (lru_cache / cache), no mutable
# default argument used as a store.  A per-process memo of baselines (keyed by etag, say) violates exactly this.
from pyvc.effects import result as _fres
from pyvc import frontend as _fe

SNAP = "clematis/engine/snapshot.py:"
_MUT_CTORS = {"dict", "list", "set", "OrderedDict", "defaultdict", "deque", "Counter", "WeakValueDictionary"}
_MEMO_DECOS = {"lru_cache", "cache", "cached_property", "memoize"}


def _is_mutable_ctor(e):
    if isinstance(e, (ast.Dict, ast.List, ast.Set, ast.DictComp, ast.ListComp, ast.SetComp)):
        return True
    if isinstance(e, ast.Call):
        f = e.func
        nm = f.id if isinstance(f, ast.Name) else f.attr if isinstance(f, ast.Attribute) else None
        return nm in _MUT_CTORS
    return False


def reader_keeps_no_state(cl, mod, cls, func):
    out = []
    mutable_globals = {}
    for st in mod.tree.body:
        tgt, val = None, None
        if isinstance(st, ast.Assign) and len(st.targets) == 1 and isinstance(st.targets[0], ast.Name):
            tgt, val = st.targets[0].id, st.value
        elif isinstance(st, ast.AnnAssign) and isinstance(st.target, ast.Name) and st.value is not None:
            tgt, val = st.target.id, st.value
        if tgt and tgt != "__all__" and _is_mutable_ctor(val):
            mutable_globals[tgt] = st.lineno
    # same-module call closure
    seen, todo = {}, [func]
    while todo:
        f = todo.pop()
        if f.name in seen:
            continue
        seen[f.name] = f
        for n in ast.walk(f):
            if isinstance(n, ast.Name) and isinstance(n.ctx, ast.Load) and n.id in mod.functions and n.id not in seen:
                todo.append(mod.functions[n.id])
    for name in sorted(seen):
        f = seen[name]
        bad = []
        for d in f.decorator_list:
            dn = d.func if isinstance(d, ast.Call) else d
            dn = dn.attr if isinstance(dn, ast.Attribute) else getattr(dn, "id", "")
            if dn in _MEMO_DECOS:
                bad.append("memoising decorator @%s (line %d)" % (dn, d.lineno))
        for a in list(f.args.defaults) + [x for x in f.args.kw_defaults if x is not None]:
            if _is_mutable_ctor(a):
                bad.append("mutable default argument (line %d)" % a.lineno)
        params = {a.arg for a in f.args.args + f.args.kwonlyargs + f.args.posonlyargs}
        local_stores = {n.id for n in ast.walk(f) if isinstance(n, ast.Name) and isinstance(n.ctx, ast.Store)}
        for n in ast.walk(f):
            if isinstance(n, (ast.Global, ast.Nonlocal)) and n is not f:
                bad.append("%s %s (line %d)" % (type(n).__name__.lower(), ", ".join(n.names), n.lineno))
            if isinstance(n, ast.Name) and n.id in mutable_globals and n.id not in params and n.id not in local_stores:
                bad.append("module-level mutable container %s (defined line %d) used at line %d" % (n.id, mutable_globals[n.id], n.lineno))
            if (isinstance(n, ast.Attribute) and isinstance(n.ctx, ast.Store) and isinstance(n.value, ast.Name)
                    and n.value.id == f.name):
                bad.append("function attribute store %s.%s (line %d)" % (f.name, n.attr, n.lineno))
        nm = "%s/keeps-no-state-between-calls:%s" % (cl["name"], name)
        out.append(_fres(nm, "failed" if bad else "proved", "; ".join(sorted(set(bad))), where=name))
    return out


for _fn in ("read_snapshot", "write_snapshot_auto", "load_latest_snapshot"):
    R.fclause("C07", "frame/" + _fn, "custom", SNAP + _fn, fn=reader_keeps_no_state)
for _fn in ("compute_delta", "apply_delta"):
    R.fclause("C07", "frame/" + _fn, "custom", SD + _fn, fn=reader_keeps_no_state)


# ---------------------------------------------------------------- the disk half: read_snapshot / write_snapshot_auto
# "A delta-mode snapshot written to disk and read back with its baseline present returns the full payload; when the
# baseline is missing, writer and reader fall back to a full snapshot or report absence instead of returning a wrongly
# reconstructed state."  Both functions are verified against an abstract snapshot directory:
#   gfiles : the set of existing paths;  ghdr / gpay : header and payload that _read_header_payload returns for a path
#   _find_snapshot_file(root, stem)  (assumed contract) -> root/stem.json if it exists, else root/stem.json.zst if it
#                                                          exists, else None
#   _read_header_payload(path)       (assumed contract) -> (ghdr[path], gpay[path])
#   apply_delta / compute_delta      opaque functions `applyd`, `computed` (their law is the codec part above)
#   _write_lines(p, header, body, ..) (assumed contract) records what is written
# so the clauses say *which* files are combined, never what the codec does with them.
from pyvc.jsonmodel import TJSON as _TJ
if "Json" not in getattr(R.types, "names", {}):
    try:
        R.types.declare("Json", _TJ)
    except Exception:
        pass
R.dictshape("C07Hdr", optional={"mode": "str", "etag_to": "str", "delta_of": "str"})
R.uf("applyd", ["Json", "Json"], "Json")
R.uf("computed", ["Json", "Json"], "Json")
# the codec seen from the disk functions: deterministic functions of their two arguments (only for these contracts:
# the bounded round-trip contracts above interpret the real bodies)
AD = R.contract(SD + "apply_delta", "C07", verify=False, callee=False, name="apply_delta(as a function)",
                types={"base": "Json", "delta": "Json"}, returns="Json", modifies=[], pure_result="applyd(base, delta)", raises="none")
CD = R.contract(SD + "compute_delta", "C07", verify=False, callee=False, name="compute_delta(as a function)",
                types={"base": "Json", "curr": "Json"}, returns="Json", modifies=[], pure_result="computed(base, curr)", raises="none")
_GH = {"gfiles": ("Set[str]", "any"), "ghdr": ("Dict[str, Optional[C07Hdr]]", "any"), "gpay": ("Dict[str, Json]", "any")}
_J = "os_join(root, stem + '.json')"
_Z = "os_join(root, stem + '.json.zst')"
FIND = R.contract(
    SNAP + "_find_snapshot_file", "C07", verify=False, callee=False, name="_find_snapshot_file(assumed)",
    types={"root": "str", "stem": "str"}, returns="Optional[str]", modifies=[],
    ensures=[("json-first", "implies(%s in gfiles, not is_none(result) and some(result) == %s)" % (_J, _J)),
             ("then-zst", "implies(not (%s in gfiles) and %s in gfiles, not is_none(result) and some(result) == %s)" % (_J, _Z, _Z)),
             ("else-none", "implies(not (%s in gfiles) and not (%s in gfiles), is_none(result))" % (_J, _Z))],
    raises="none",
)
RHP = R.contract(
    SNAP + "_read_header_payload", "C07", verify=False, callee=False, name="_read_header_payload(assumed)",
    types={"path": "str"}, returns="Tuple[Optional[C07Hdr], Json]", modifies=[],
    requires=[("file-exists", "path in gfiles")],
    ensures=[("header-and-payload-of-that-file", "result[0] == ghdr[path] and result[1] == gpay[path]")],
    raises="none",
)
_HDR_INV = ("delta-headers-carry-both-etags",      # what write_snapshot_auto writes (clause W1 below)
            "forall((p, 'str'), p in gfiles and not is_none(ghdr[p]) and ('mode' in some(ghdr[p])) and some(ghdr[p])['mode'] == 'delta', "
            "('delta_of' in some(ghdr[p])) and ('etag_to' in some(ghdr[p])))")


def _found(d, stem):
    return "(os_join(%s, %s + '.json') in gfiles or os_join(%s, %s + '.json.zst') in gfiles)" % (d, stem, d, stem)


def _pay(d, stem):
    """payload (`or {}`) of the file _find_snapshot_file(d, stem) returns"""
    return ("j_or_empty(gpay[ite(os_join(%s, %s + '.json') in gfiles, os_join(%s, %s + '.json'), os_join(%s, %s + '.json.zst'))])"
            % (d, stem, d, stem, d, stem))


# fact about os.path.join (an uninterpreted function here): joining a non-empty last component never gives ""
# (the code tests the found path for truthiness)
_JOIN_AX = ["forall((a, 'str'), True, forall((b, 'str'), len(b) > 0, len(os_join(a, b)) > 0))"]
_H = "some(ghdr[path])"
_ISD = "(not is_none(ghdr[path]) and ('mode' in " + _H + ") and " + _H + "['mode'] == 'delta')"
_BDIR = "ite(is_none(baseline_dir) or len(some(baseline_dir)) == 0, os_dirname(path), some(baseline_dir))"
_BSTEM = "('snapshot-' + " + _H + "['delta_of'] + '.full')"
_SSTEM = "('snapshot-' + " + _H + "['etag_to'] + '.full')"
_EMPTY = "jv(dict())"
R.contract(
    SNAP + "read_snapshot", "C07", name="read_snapshot[path given]", callee=False,
    types={"root": "Optional[str]", "etag_to": "Optional[str]", "baseline_dir": "Optional[str]", "path": "str", "kwargs": "=dict()"},
    ghost=_GH, funcs={SNAP + "_find_snapshot_file": FIND, SNAP + "_read_header_payload": RHP, SD + "apply_delta": AD}, axioms=_JOIN_AX,
    requires=[("path-given-and-readable", "len(path) > 0 and path in gfiles"), _HDR_INV],
    ensures=[
        ("full-or-legacy-file-returns-its-payload", "implies(not %s, result == j_or_empty(gpay[path]))" % _ISD),
        ("delta-with-baseline-present-is-reconstructed-from-that-baseline",
         "implies(%s and %s, result == applyd(%s, j_or_empty(gpay[path])))" % (_ISD, _found(_BDIR, _BSTEM), _pay(_BDIR, _BSTEM))),
        ("delta-without-baseline-never-reconstructs",
         "implies(%s and not %s, result == ite(%s, %s, %s))" % (
             _ISD, _found(_BDIR, _BSTEM), _found("os_dirname(path)", _SSTEM), _pay("os_dirname(path)", _SSTEM), _EMPTY)),
    ],
    raises="none",
    # the etag-addressed half of the function is the other variant
    unreachable_ok=["root = root or '.'", "delta_path = ", "if delta_path:", "header, payload = _read_header_payload(delta_path)",
                    "delta_of = (header or {})", "bdir = baseline_dir or root", "base = _find_snapshot_file(bdir, f'snapshot-{delta_of}.full') if",
                    "if base:", "_, base_payload = _read_header_payload(base)", "from clematis.engine.util.snapshot_delta import apply_delta",
                    "return apply_delta(base_payload or {}, payload or {})", "logging.warning(", "full_path = ", "if full_path:",
                    "_, full_payload = ", "return full_payload or {}", "return {}"],
)
_ROOT = "ite(is_none(old(root)) or len(some(old(root))) == 0, '.', some(old(root)))"      # `root` is rebound by the code
_DSTEM = "('snapshot-' + some(old(etag_to)) + '.delta')"
_FSTEM = "('snapshot-' + some(old(etag_to)) + '.full')"
_DP = "ite(os_join(%s, %s + '.json') in gfiles, os_join(%s, %s + '.json'), os_join(%s, %s + '.json.zst'))" % (_ROOT, _DSTEM, _ROOT, _DSTEM, _ROOT, _DSTEM)
_DH = "some(ghdr[" + _DP + "])"
_HAS_OF = "(not is_none(ghdr[" + _DP + "]) and ('delta_of' in " + _DH + ") and len(" + _DH + "['delta_of']) > 0)"
_BDIR2 = "ite(is_none(baseline_dir) or len(some(baseline_dir)) == 0, " + _ROOT + ", some(baseline_dir))"
_BSTEM2 = "('snapshot-' + " + _DH + "['delta_of'] + '.full')"
_FULL_OR_EMPTY = "ite(%s, %s, %s)" % (_found(_ROOT, _FSTEM), _pay(_ROOT, _FSTEM), _EMPTY)
R.contract(
    SNAP + "read_snapshot", "C07", name="read_snapshot[by etag]", callee=False,
    types={"root": "Optional[str]", "etag_to": "Optional[str]", "baseline_dir": "Optional[str]", "path": "=None", "kwargs": "=dict()"},
    ghost=_GH, funcs={SNAP + "_find_snapshot_file": FIND, SNAP + "_read_header_payload": RHP, SD + "apply_delta": AD}, axioms=_JOIN_AX,
    requires=[("etag-given", "not is_none(etag_to)")],
    ensures=[
        ("no-delta-file-returns-the-full-file-or-nothing", "implies(not %s, result == %s)" % (_found(_ROOT, _DSTEM), _FULL_OR_EMPTY)),
        ("delta-with-baseline-present-is-reconstructed-from-that-baseline",
         "implies(%s and %s and %s, result == applyd(%s, j_or_empty(gpay[%s])))" % (
             _found(_ROOT, _DSTEM), _HAS_OF, _found(_BDIR2, _BSTEM2), _pay(_BDIR2, _BSTEM2), _DP)),
        ("delta-without-baseline-falls-back-to-the-full-file-or-nothing",
         "implies(%s and not (%s and %s), result == %s)" % (_found(_ROOT, _DSTEM), _HAS_OF, _found(_BDIR2, _BSTEM2), _FULL_OR_EMPTY)),
    ],
    raises="none",
    unreachable_ok=["header, payload = _read_header_payload(path)", "if header and header.get('mode') == 'delta':", "etag_to = header.get('etag_to')",
                    "delta_of = header.get('delta_of')", "bdir = baseline_dir or os.path.dirname(path)",
                    "base = _find_snapshot_file(bdir, f'snapshot-{delta_of}.full')\n", "sib_full = ", "if sib_full:", "return payload or {}"],
)

# ---- writer
R.dictshape("C07WHdr", required={"schema": "str", "mode": "str", "etag_to": "str", "codec": "str", "level": "int"},
            optional={"etag_from": "str", "delta_of": "str"})
WL = R.contract(
    SNAP + "_write_lines", "C07", verify=False, callee=False, name="_write_lines(assumed)",
    types={"p": "str", "header": "C07WHdr", "body_json": "str", "codec": "str", "level": "int"},
    raises=["OSError"], modifies=[],
    effects=["wl_paths.append(p)", "wl_hdrs.append(header)", "wl_bodies.append(body_json)"],
)
_WDIR = "dir_path"
_WBSTEM = "('snapshot-' + some(etag_from) + '.full')"
_WANT_DELTA = "(delta_mode and not is_none(etag_from) and len(some(etag_from)) > 0 and %s)" % _found(_WDIR, _WBSTEM)
_CODEC = "ite(compression.lower() == 'zstd', 'zstd', 'none')"
_EXT = "ite(compression.lower() == 'zstd', '.zst', '')"
R.contract(
    SNAP + "write_snapshot_auto", "C07", callee=False,
    types={"dir_path": "str", "etag_from": "Optional[str]", "etag_to": "str", "payload": "Json", "compression": "str", "level": "int",
           "delta_mode": "bool"},
    ghost=dict(_GH, wl_paths=("List[str]", "empty"), wl_hdrs=("List[C07WHdr]", "empty"), wl_bodies=("List[str]", "empty")),
    funcs={SNAP + "_find_snapshot_file": FIND, SNAP + "_read_header_payload": RHP, SNAP + "_write_lines": WL, SD + "compute_delta": CD},
    axioms=_JOIN_AX,
    ensures=[
        ("exactly-one-file-written", "len(wl_paths) == 1 and len(wl_hdrs) == 1 and len(wl_bodies) == 1 and result[0] == wl_paths[0]"),
        ("delta-iff-requested-and-baseline-found", "result[1] == %s" % _WANT_DELTA),
        ("delta-file-names-its-baseline-and-target",
         "implies(%s, wl_hdrs[0]['mode'] == 'delta' and ('delta_of' in wl_hdrs[0]) and wl_hdrs[0]['delta_of'] == some(etag_from) and "
         "wl_hdrs[0]['etag_to'] == etag_to and wl_paths[0] == os_join(dir_path, 'snapshot-' + etag_to + '.delta.json' + %s))" % (_WANT_DELTA, _EXT)),
        ("delta-body-is-the-delta-against-that-baseline",
         "implies(%s, wl_bodies[0] == json_dumps(computed(%s, payload), sort_keys=True, separators=(',', ':')))" % (_WANT_DELTA, _pay(_WDIR, _WBSTEM))),
        ("otherwise-a-full-file-with-the-whole-payload",
         "implies(not %s, wl_hdrs[0]['mode'] == 'full' and wl_hdrs[0]['etag_to'] == etag_to and not ('delta_of' in wl_hdrs[0]) and "
         "wl_paths[0] == os_join(dir_path, 'snapshot-' + etag_to + '.full.json' + %s) and "
         "wl_bodies[0] == json_dumps(payload, sort_keys=True, separators=(',', ':')))" % (_WANT_DELTA, _EXT)),
    ],
    raises=["OSError"],
    ensures_exc=[("at-most-one-file-written", "len(wl_paths) <= 1")],
    unreachable_ok=["compute_delta = None"],      # handler of the local `from ... import compute_delta`: the module is part of the repository
)


# ---- the delta branch of load_latest_snapshot (region contract, contracts/_c07_load.py)
from contracts import _c07_load  # noqa: E402,F401
