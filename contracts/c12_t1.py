"""C12 -- propagation follows the documented spreading rule within its budgets (clematis/engine/stages/t1.py).

Engine additions used here (see ENGINE_GUIDE.md): optional dictrec keys ("key?"), region contracts (`region=`),
`defaultdict(float)`, trusted heapq multiset model (pyvc/externals.py).
"""
from pyvc.verifier import REG as R

T1 = "clematis/engine/stages/t1.py:"

# ------------------------------------------------------------------ _compute_decay
# t1.decay is filled by the config defaults ({"mode","rate","floor"}); every key may be absent (alpha usually is)
R.dictrec("T1Decay", {"mode?": "str", "alpha?": "float", "rate?": "float", "floor?": "float"})
R.dictrec("T1CfgDecay", {"decay": "T1Decay"})

_MODE = "cfg_t1['decay'].get('mode', 'exp_floor')"
_ALPHA = "cfg_t1['decay'].get('alpha', 0.8)"
_RATE = "cfg_t1['decay'].get('rate', 0.6)"
_FLOOR = "cfg_t1['decay'].get('floor', 0.05)"

R.contract(
    T1 + "_compute_decay", "C12",
    types={"distance": "int", "cfg_t1": "T1CfgDecay"},
    returns="float",
    requires=[
        # type invariant of the callers: d = dist[u] + 1 >= 1
        ("distance-nonneg", "distance >= 0"),
        # the validator does not look into t1.decay; alpha < 0 can make 1 + alpha*d*d == 0 (ZeroDivisionError)
        ("alpha-nonneg", "implies(" + _MODE + " == 'attn_quad', " + _ALPHA + " >= 0)"),
    ],
    ensures=[
        ("attn-quad", "implies(" + _MODE + " == 'attn_quad', result == 1.0 / (1.0 + " + _ALPHA + " * (distance * distance)))"),
        ("exp-floor", "implies(" + _MODE + " != 'attn_quad', result == max(" + _RATE + " ** distance, " + _FLOOR + "))"),
        ("attn-quad-in-unit-interval", "implies(" + _MODE + " == 'attn_quad', 0 < result and result <= 1)"),
        ("exp-floor-at-least-floor", "implies(" + _MODE + " != 'attn_quad', result >= " + _FLOOR + ")"),
        ("exp-floor-in-unit-interval",
         "implies(" + _MODE + " != 'attn_quad' and 0 < " + _RATE + " and " + _RATE + " <= 1 and " + _FLOOR + " <= 1, 0 < result and result <= 1)"),
    ],
    raises="none",
    nonlinear=True,
)

# ------------------------------------------------------------------ _match_keywords
LBL = "List[Tuple[str, str]]"
_HIT = "(len(%(L)s[%(j)s][1]) > 0 and %(L)s[%(j)s][1].lower() in text.lower())"

# kwhit(text, label) is a definitional abbreviation (axiom below) that keeps string constraints out of quantifier bodies
R.uf("kwhit", ["str", "str"], "bool")
AX_KWHIT = ["forall((l, 'str'), True, kwhit(text, l) == (len(l) > 0 and l.lower() in text.lower()))"]

R.contract(
    T1 + "_match_keywords", "C12",
    types={"text": "str", "labels": LBL},
    returns="Dict[str, float]",
    ensures=[
        # nid in seeds  <=>  some (nid, label) in labels has a non-empty label whose lower-cased form occurs in the
        # lower-cased text (the two directions are separate obligations)
        ("every-matching-label-seeded",
         "forall(j, 0 <= j < len(labels), implies(" + _HIT % {"L": "labels", "j": "j"} + ", labels[j][0] in result))"),
        ("only-matching-labels-seeded",
         "forall((k, 'str'), k in result, exists(j, 0 <= j < len(labels), labels[j][0] == k and " + _HIT % {"L": "labels", "j": "j"} + "))"),
        ("seed-weight-one", "forall((k, 'str'), k in result, result[k] == 1.0)"),
        ("inputs-untouched", "seq_eq(labels, old(labels))"),
    ],
    raises="none",
    axioms=AX_KWHIT,
    sort_facts=False,   # the seeding order does not matter for the seed *set*; keeps str `<=` atoms out of the goals
    loops={0: {"inv": [
        "t == text.lower()",
        "len(_iter) == len(labels)",
        "forall(j, 0 <= j < _i, implies(kwhit(text, _iter[j][1]), _iter[j][0] in seeds))",
        "forall((k, 'str'), k in seeds, exists(j, 0 <= j < _i, _iter[j][0] == k and kwhit(text, _iter[j][1])))",
        "forall((k, 'str'), k in seeds, seeds[k] == 1.0)",
    ]}},
    locals={"seeds": "Dict[str, float]"},
)

# ------------------------------------------------------------------ slice clamps in t1_propagate (region contract)
R.dictrec("T1CfgCaps", {"queue_budget?": "int", "node_budget?": "float", "radius_cap?": "int", "iter_cap?": "int",
                        "iter_cap_layers?": "int", "relax_cap?": "Optional[int]"})
R.objtype("T1SliceCtx", {"slice_budgets": "Optional[Dict[str, int]]"})
R.objtype("T1PlainCtx", {})      # a ctx object that has no `slice_budgets` attribute at all

_SB = "ctx.slice_budgets"
_HAS = "(not is_none(" + _SB + ") and '%s' in some(" + _SB + "))"
_QB = "cfg_t1.get('queue_budget', 10000)"
_BASE_LAYERS = "min(cfg_t1.get('iter_cap_layers', 50), cfg_t1.get('iter_cap', 50))"
_REGION = ("queue_budget = int(cfg_t1.get(", "effective_queue_budget = (")

R.contract(
    T1 + "t1_propagate", "C12", name="t1_propagate[slice-clamps]", callee=False,
    region=_REGION,
    types={"ctx": "T1SliceCtx", "state": "None", "text": "str", "cfg_t1": "T1CfgCaps"},
    ensures=[
        ("pops-budget-is-min-of-config-and-slice",
         "effective_queue_budget == ite(" + _HAS % "t1_pops" + ", min(" + _QB + ", some(" + _SB + ")['t1_pops']), " + _QB + ")"),
        ("layer-cap-is-min-of-config-and-slice",
         "effective_iter_cap_layers == ite(" + _HAS % "t1_iters" + ", min(" + _BASE_LAYERS + ", some(" + _SB + ")['t1_iters']), " + _BASE_LAYERS + ")"),
        ("never-above-config", "effective_queue_budget <= " + _QB + " and effective_iter_cap_layers <= cfg_t1.get('iter_cap_layers', 50) "
                               "and effective_iter_cap_layers <= cfg_t1.get('iter_cap', 50)"),
        ("never-above-slice-cap",
         "implies(" + _HAS % "t1_pops" + ", effective_queue_budget <= some(" + _SB + ")['t1_pops']) and "
         "implies(" + _HAS % "t1_iters" + ", effective_iter_cap_layers <= some(" + _SB + ")['t1_iters'])"),
        ("config-read-as-documented",
         "queue_budget == " + _QB + " and radius_cap == cfg_t1.get('radius_cap', 4) and node_budget == cfg_t1.get('node_budget', 1.5) "
         "and iter_cap == cfg_t1.get('iter_cap', 50)"),
        ("slice-caps-read-only", "seq_eq(" + _SB + ", old(" + _SB + "))"),
    ],
    raises="none",
)

# ------------------------------------------------------------------ output region of _t1_one_graph
ONE = T1 + "t1_propagate.<locals>._t1_one_graph"
# node ids are only hashed and compared by this code: modelled as an opaque totally ordered sort (any such key type,
# python str included); keeps string ordering out of the quantified goals
R.untype("Nid")
R.dictshape("T1Delta", {"op": "str", "id": "Un[Nid]"})
_SORTED_ITEMS = [    # facts about `sorted(acc.items(), key=kv[0])`, proved at loop entry from the sorted()/items() model
    "forall(m, 0 <= m < len(_iter), _iter[m][0] in acc and acc[_iter[m][0]] == _iter[m][1])",
    "forall((k, 'Un[Nid]'), k in acc, exists(m, 0 <= m < len(_iter), _iter[m][0] == k))",
    "forall2(m, m2, 0 <= m and m < m2 and m2 < len(_iter), _iter[m][0] < _iter[m2][0])",
]
R.contract(
    ONE, "C12", name="_t1_one_graph[output-region]", callee=False,
    region=("deltas_for_gid: List[Dict[str, Any]] = []", "for nid, val in sorted(acc.items()"),
    types={"gid": "str", "acc": "Dict[Un[Nid], float]"},
    ensures=[
        ("ids-strictly-increasing",
         "forall2(i, j, 0 <= i and i < j and j < len(deltas_for_gid), deltas_for_gid[i]['id'] < deltas_for_gid[j]['id'])"),
        ("only-touched-nodes-above-eps",
         "forall(i, 0 <= i < len(deltas_for_gid), deltas_for_gid[i]['op'] == 'upsert_node' and deltas_for_gid[i]['id'] in acc "
         "and abs(acc[deltas_for_gid[i]['id']]) >= EPS)"),
        ("every-touched-node-above-eps-reported",
         "forall((k, 'Un[Nid]'), k in acc and abs(acc[k]) >= EPS, exists(i, 0 <= i < len(deltas_for_gid), deltas_for_gid[i]['id'] == k))"),
        ("acc-untouched", "seq_eq(acc, old(acc))"),
    ],
    raises="none",
    loops={5: {"inv": _SORTED_ITEMS + [
        "len(deltas_for_gid) <= _i",
        "forall(j, 0 <= j < len(deltas_for_gid), deltas_for_gid[j]['op'] == 'upsert_node' and "
        "  exists(m, 0 <= m < _i, _iter[m][0] == deltas_for_gid[j]['id'] and abs(_iter[m][1]) >= EPS))",
        "forall(m, 0 <= m < _i, implies(abs(_iter[m][1]) >= EPS, exists(j, 0 <= j < len(deltas_for_gid), deltas_for_gid[j]['id'] == _iter[m][0])))",
        "forall2(i, j, 0 <= i and i < j and j < len(deltas_for_gid), deltas_for_gid[i]['id'] < deltas_for_gid[j]['id'])",
        "forall(j, 0 <= j < len(deltas_for_gid), forall(m, _i <= m < len(_iter), deltas_for_gid[j]['id'] < _iter[m][0]))",
    ]}},
    locals={"deltas_for_gid": "List[T1Delta]"},
)

R.contract(
    T1 + "t1_propagate", "C12", name="t1_propagate[slice-clamps,no-slice-attr]", callee=False,
    region=_REGION,
    types={"ctx": "T1PlainCtx", "state": "None", "text": "str", "cfg_t1": "T1CfgCaps"},
    ensures=[
        ("no-slice-budgets-means-config-caps",
         "effective_queue_budget == " + _QB + " and effective_iter_cap_layers == " + _BASE_LAYERS),
    ],
    raises="none",
)


# ------------------------------------------------------------------ frame: t1 never writes the graph store
def _t1_frame_lemma():
    """Syntactic frame check over the *current* source of t1_propagate (incl. the closure _t1_one_graph):
    names that (transitively) alias the store / a graph / a node / an edge / the csr index are `tainted`; then
      (1) no attribute/subscript store, augmented store or `del` goes through a tainted name,
      (2) every method called on a tainted object is one of the read accessors below,
      (3) a tainted object is passed as an argument only to side-effect free builtins / dict.get,
      (4) `store` is bound exactly once, from state.get("store").
    Each rule is one named goal (BoolVal); a violated goal carries the offending line numbers in its name."""
    import ast
    import z3
    from pyvc import frontend
    mod = frontend.load_module("clematis/engine/stages/t1.py")
    fn = mod.functions["t1_propagate"]
    READ_METHODS = {"get_graph", "version_etag", "csr", "values", "items", "keys", "get"}
    # DedupeRing.contains/add only hash, compare and store their argument (contracts in c15_lru.py)
    KEY_ONLY = {("ring", "contains"), ("ring", "add")}
    PURE_FUNCS = {"getattr", "list", "float", "int", "str", "abs", "len", "isinstance", "sorted", "tuple", "bool", "hasattr"}

    def root(e):
        while True:
            if isinstance(e, (ast.Attribute, ast.Subscript, ast.Starred)):
                e = e.value
            elif isinstance(e, ast.Call):
                f = e.func
                if isinstance(f, ast.Attribute):
                    e = f.value
                elif isinstance(f, ast.Name) and f.id in ("getattr", "list", "sorted", "tuple") and e.args:
                    e = e.args[0]
                else:
                    return None
            elif isinstance(e, ast.Name):
                return e.id
            else:
                return None

    def names_of(t, out):
        if isinstance(t, ast.Name):
            out.add(t.id)
        elif isinstance(t, (ast.Tuple, ast.List)):
            for x in t.elts:
                names_of(x, out)

    tainted = {"store"}
    changed = True
    while changed:
        changed = False
        for n in ast.walk(fn):
            tgts, src = [], None
            if isinstance(n, ast.Assign):
                tgts, src = n.targets, n.value
            elif isinstance(n, ast.AnnAssign) and n.value is not None:
                tgts, src = [n.target], n.value
            elif isinstance(n, (ast.For, ast.comprehension)):
                tgts, src = [n.target], n.iter
            elif isinstance(n, ast.NamedExpr):
                tgts, src = [n.target], n.value
            if src is not None and root(src) in tainted:
                new = set()
                for t in tgts:
                    names_of(t, new)
                # scalars read out of the graph (ids, labels, weights) are values, not aliases
                if isinstance(src, ast.Call) and isinstance(src.func, ast.Name) and src.func.id in ("float", "int", "str", "len"):
                    new = set()
                if not new <= tainted:
                    tainted |= new
                    changed = True
    bad_store, bad_call, bad_escape, store_binds = [], [], [], []
    for n in ast.walk(fn):
        stores = []
        if isinstance(n, ast.Assign):
            stores = list(n.targets)
        elif isinstance(n, (ast.AugAssign, ast.AnnAssign)):
            stores = [n.target]
        elif isinstance(n, ast.Delete):
            stores = list(n.targets)
        flat = []
        for t in stores:
            flat.extend(t.elts if isinstance(t, (ast.Tuple, ast.List)) else [t])
        for t in flat:
            if isinstance(t, (ast.Attribute, ast.Subscript)) and root(t) in tainted:
                bad_store.append(t.lineno)
            if isinstance(t, ast.Name) and t.id == "store":
                store_binds.append(ast.unparse(n.value) if hasattr(n, "value") and n.value is not None else "?")
        if isinstance(n, (ast.Global, ast.Nonlocal)) and "store" in n.names:
            store_binds.append("global/nonlocal")
        if isinstance(n, ast.Call):
            f = n.func
            if isinstance(f, ast.Attribute) and root(f.value) in tainted and f.attr not in READ_METHODS:
                bad_call.append(n.lineno)
            if isinstance(f, ast.Name) and f.id in ("setattr", "delattr"):
                bad_call.append(n.lineno)
            pure = (isinstance(f, ast.Name) and f.id in PURE_FUNCS) or (isinstance(f, ast.Attribute) and f.attr in ("get", "append")) \
                or (isinstance(f, ast.Attribute) and isinstance(f.value, ast.Name) and (f.value.id, f.attr) in KEY_ONLY)
            for a in list(n.args) + [k.value for k in n.keywords]:
                # whole tainted objects (not scalars read out of them) handed to anything but a pure builtin
                if isinstance(a, ast.Name) and a.id in tainted and not pure:
                    bad_escape.append(n.lineno)

    def goal(ok_list, tag):
        if not ok_list:
            return z3.BoolVal(True)
        return z3.And(z3.BoolVal(False), z3.Bool("%s_at_lines_%s" % (tag, "_".join(str(x) for x in sorted(set(ok_list))))))
    return [
        ("no-store-through-graph-objects", [], goal(bad_store, "store")),
        ("only-read-accessors-called-on-graph-objects", [], goal(bad_call, "call")),
        ("graph-objects-escape-only-to-pure-builtins", [], goal(bad_escape, "escape")),
        ("store-bound-once-from-state", [], z3.BoolVal(store_binds == ["state.get('store')"])),
        ("alias-set-is-the-expected-one", [], z3.BoolVal({"store", "g", "n", "csr", "e"} <= tainted)),
    ]


R.lemma("t1-frame", "C12", _t1_frame_lemma)
