"""C12 -- propagation follows the documented spreading rule within its budgets (clematis/engine/stages/t1.py).

Engine additions used here (see ENGINE_GUIDE.md): optional dictrec keys ("key?"), region contracts (`region=`),
`defaultdict(float)`, trusted heapq multiset model (pyvc/externals.py).
"""
from pyvc.verifier import REG as R

T1 = "clematis/engine/stages/t1.py:"

# ------------------------------------------------------------------ _compute_decay
# t1.decay is filled by the config defaults ({"mode","rate","floor"}); every key may be absent (alpha usually is)
R.dictrec("T1Decay", {"mode?": "str", "alpha?": "float", "rate?": "float", "floor?": "float"})
R.dictrec("T1CfgDecay", {"decay": "T1Decay"})

_MODE = "cfg_t1['decay'].get('mode', 'exp_floor')"
_ALPHA = "cfg_t1['decay'].get('alpha', 0.8)"
_RATE = "cfg_t1['decay'].get('rate', 0.6)"
_FLOOR = "cfg_t1['decay'].get('floor', 0.05)"

R.contract(
    T1 + "_compute_decay", "C12",
    types={"distance": "int", "cfg_t1": "T1CfgDecay"},
    returns="float",
    requires=[
        # type invariant of the callers: d = dist[u] + 1 >= 1
        ("distance-nonneg", "distance >= 0"),
        # the validator does not look into t1.decay; alpha < 0 can make 1 + alpha*d*d == 0 (ZeroDivisionError)
        ("alpha-nonneg", "implies(" + _MODE + " == 'attn_quad', " + _ALPHA + " >= 0)"),
    ],
    ensures=[
        ("attn-quad", "implies(" + _MODE + " == 'attn_quad', result == 1.0 / (1.0 + " + _ALPHA + " * (distance * distance)))"),
        ("exp-floor", "implies(" + _MODE + " != 'attn_quad', result == max(" + _RATE + " ** distance, " + _FLOOR + "))"),
        ("attn-quad-in-unit-interval", "implies(" + _MODE + " == 'attn_quad', 0 < result and result <= 1)"),
        ("exp-floor-at-least-floor", "implies(" + _MODE + " != 'attn_quad', result >= " + _FLOOR + ")"),
        ("exp-floor-in-unit-interval",
         "implies(" + _MODE + " != 'attn_quad' and 0 < " + _RATE + " and " + _RATE + " <= 1 and " + _FLOOR + " <= 1, 0 < result and result <= 1)"),
    ],
    raises="none",
    nonlinear=True,
)

# ------------------------------------------------------------------ _match_keywords
LBL = "List[Tuple[str, str]]"
_HIT = "(len(%(L)s[%(j)s][1]) > 0 and %(L)s[%(j)s][1].lower() in text.lower())"

# kwhit(text, label) is a definitional abbreviation (axiom below) that keeps string constraints out of quantifier bodies
R.uf("kwhit", ["str", "str"], "bool")
AX_KWHIT = ["forall((l, 'str'), True, kwhit(text, l) == (len(l) > 0 and l.lower() in text.lower()))"]

R.contract(
    T1 + "_match_keywords", "C12",
    types={"text": "str", "labels": LBL},
    returns="Dict[str, float]",
    ensures=[
        # nid in seeds  <=>  some (nid, label) in labels has a non-empty label whose lower-cased form occurs in the
        # lower-cased text (the two directions are separate obligations)
        ("every-matching-label-seeded",
         "forall(j, 0 <= j < len(labels), implies(" + _HIT % {"L": "labels", "j": "j"} + ", labels[j][0] in result))"),
        ("only-matching-labels-seeded",
         "forall((k, 'str'), k in result, exists(j, 0 <= j < len(labels), labels[j][0] == k and " + _HIT % {"L": "labels", "j": "j"} + "))"),
        ("seed-weight-one", "forall((k, 'str'), k in result, result[k] == 1.0)"),
        ("inputs-untouched", "seq_eq(labels, old(labels))"),
    ],
    raises="none",
    axioms=AX_KWHIT,
    sort_facts=False,   # the seeding order does not matter for the seed *set*; keeps str `<=` atoms out of the goals
    loops={0: {"inv": [
        "t == text.lower()",
        "len(_iter) == len(labels)",
        "forall(j, 0 <= j < _i, implies(kwhit(text, _iter[j][1]), _iter[j][0] in seeds))",
        "forall((k, 'str'), k in seeds, exists(j, 0 <= j < _i, _iter[j][0] == k and kwhit(text, _iter[j][1])))",
        "forall((k, 'str'), k in seeds, seeds[k] == 1.0)",
    ]}},
    locals={"seeds": "Dict[str, float]"},
)

# ------------------------------------------------------------------ slice clamps in t1_propagate (region contract)
R.dictrec("T1CfgCaps", {"queue_budget?": "int", "node_budget?": "float", "radius_cap?": "int", "iter_cap?": "int",
                        "iter_cap_layers?": "int", "relax_cap?": "Optional[int]"})
R.objtype("T1SliceCtx", {"slice_budgets": "Optional[Dict[str, int]]"})
R.objtype("T1PlainCtx", {})      # a ctx object that has no `slice_budgets` attribute at all

_SB = "ctx.slice_budgets"
_HAS = "(not is_none(" + _SB + ") and '%s' in some(" + _SB + "))"
_QB = "cfg_t1.get('queue_budget', 10000)"
_BASE_LAYERS = "min(cfg_t1.get('iter_cap_layers', 50), cfg_t1.get('iter_cap', 50))"
_REGION = ("queue_budget = int(cfg_t1.get(", "effective_queue_budget = (")

R.contract(
    T1 + "t1_propagate", "C12", name="t1_propagate[slice-clamps]", callee=False,
    region=_REGION,
    types={"ctx": "T1SliceCtx", "state": "None", "text": "str", "cfg_t1": "T1CfgCaps"},
    ensures=[
        ("pops-budget-is-min-of-config-and-slice",
         "effective_queue_budget == ite(" + _HAS % "t1_pops" + ", min(" + _QB + ", some(" + _SB + ")['t1_pops']), " + _QB + ")"),
        ("layer-cap-is-min-of-config-and-slice",
         "effective_iter_cap_layers == ite(" + _HAS % "t1_iters" + ", min(" + _BASE_LAYERS + ", some(" + _SB + ")['t1_iters']), " + _BASE_LAYERS + ")"),
        ("never-above-config", "effective_queue_budget <= " + _QB + " and effective_iter_cap_layers <= cfg_t1.get('iter_cap_layers', 50) "
                               "and effective_iter_cap_layers <= cfg_t1.get('iter_cap', 50)"),
        ("never-above-slice-cap",
         "implies(" + _HAS % "t1_pops" + ", effective_queue_budget <= some(" + _SB + ")['t1_pops']) and "
         "implies(" + _HAS % "t1_iters" + ", effective_iter_cap_layers <= some(" + _SB + ")['t1_iters'])"),
        ("config-read-as-documented",
         "queue_budget == " + _QB + " and radius_cap == cfg_t1.get('radius_cap', 4) and node_budget == cfg_t1.get('node_budget', 1.5) "
         "and iter_cap == cfg_t1.get('iter_cap', 50)"),
        ("slice-caps-read-only", "seq_eq(" + _SB + ", old(" + _SB + "))"),
    ],
    raises="none",
)

# ------------------------------------------------------------------ output region of _t1_one_graph
ONE = T1 + "t1_propagate.<locals>._t1_one_graph"
# node ids are only hashed and compared by this code: modelled as an opaque totally ordered sort (any such key type,
# python str included); keeps string ordering out of the quantified goals
R.untype("Nid")
R.dictlike("T1Delta", {"op": "str", "id": "Un[Nid]"})
_SORTED_ITEMS = [    # facts about `sorted(acc.items(), key=kv[0])`, proved at loop entry from the sorted()/items() model
    "forall(m, 0 <= m < len(_iter), _iter[m][0] in acc and acc[_iter[m][0]] == _iter[m][1])",
    "forall((k, 'Un[Nid]'), k in acc, exists(m, 0 <= m < len(_iter), _iter[m][0] == k))",
    "forall2(m, m2, 0 <= m and m < m2 and m2 < len(_iter), _iter[m][0] < _iter[m2][0])",
]
R.contract(
    ONE, "C12", name="_t1_one_graph[output-region]", callee=False,
    region=("deltas_for_gid: List[Dict[str, Any]] = []", "for nid, val in sorted(acc.items()"),
    types={"gid": "str", "acc": "Dict[Un[Nid], float]"},
    ensures=[
        ("ids-strictly-increasing",
         "forall2(i, j, 0 <= i and i < j and j < len(deltas_for_gid), deltas_for_gid[i]['id'] < deltas_for_gid[j]['id'])"),
        ("only-touched-nodes-above-eps",
         "forall(i, 0 <= i < len(deltas_for_gid), deltas_for_gid[i]['op'] == 'upsert_node' and deltas_for_gid[i]['id'] in acc "
         "and abs(acc[deltas_for_gid[i]['id']]) >= EPS)"),
        ("every-touched-node-above-eps-reported",
         "forall((k, 'Un[Nid]'), k in acc and abs(acc[k]) >= EPS, exists(i, 0 <= i < len(deltas_for_gid), deltas_for_gid[i]['id'] == k))"),
        ("acc-untouched", "seq_eq(acc, old(acc))"),
    ],
    raises="none",
    loops={5: {"inv": _SORTED_ITEMS + [
        "len(deltas_for_gid) <= _i",
        "forall(j, 0 <= j < len(deltas_for_gid), deltas_for_gid[j]['op'] == 'upsert_node' and "
        "  exists(m, 0 <= m < _i, _iter[m][0] == deltas_for_gid[j]['id'] and abs(_iter[m][1]) >= EPS))",
        "forall(m, 0 <= m < _i, implies(abs(_iter[m][1]) >= EPS, exists(j, 0 <= j < len(deltas_for_gid), deltas_for_gid[j]['id'] == _iter[m][0])))",
        "forall2(i, j, 0 <= i and i < j and j < len(deltas_for_gid), deltas_for_gid[i]['id'] < deltas_for_gid[j]['id'])",
        "forall(j, 0 <= j < len(deltas_for_gid), forall(m, _i <= m < len(_iter), deltas_for_gid[j]['id'] < _iter[m][0]))",
    ]}},
    locals={"deltas_for_gid": "List[T1Delta]"},
)

R.contract(
    T1 + "t1_propagate", "C12", name="t1_propagate[slice-clamps,no-slice-attr]", callee=False,
    region=_REGION,
    types={"ctx": "T1PlainCtx", "state": "None", "text": "str", "cfg_t1": "T1CfgCaps"},
    ensures=[
        ("no-slice-budgets-means-config-caps",
         "effective_queue_budget == " + _QB + " and effective_iter_cap_layers == " + _BASE_LAYERS),
    ],
    raises="none",
)
