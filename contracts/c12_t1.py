"""C12 -- propagation follows the documented spreading rule within its budgets (clematis/engine/stages/t1.py).

Engine additions used here (see ENGINE_GUIDE.md): optional dictrec keys ("key?"), region contracts (`region=`),
`defaultdict(float)`, trusted heapq multiset model (pyvc/externals.py).
"""
from pyvc.verifier import REG as R

T1 = "clematis/engine/stages/t1.py:"

# ------------------------------------------------------------------ _compute_decay
# t1.decay is filled by the config defaults ({"mode","rate","floor"}); every key may be absent (alpha usually is)
R.dictrec("T1Decay", {"mode?": "str", "alpha?": "float", "rate?": "float", "floor?": "float"})
R.dictrec("T1CfgDecay", {"decay": "T1Decay"})

_MODE = "cfg_t1['decay'].get('mode', 'exp_floor')"
_ALPHA = "cfg_t1['decay'].get('alpha', 0.8)"
_RATE = "cfg_t1['decay'].get('rate', 0.6)"
_FLOOR = "cfg_t1['decay'].get('floor', 0.05)"

R.contract(
    T1 + "_compute_decay", "C12",
    types={"distance": "int", "cfg_t1": "T1CfgDecay"},
    returns="float",
    requires=[
        # type invariant of the callers: d = dist[u] + 1 >= 1
        ("distance-nonneg", "distance >= 0"),
        # the validator does not look into t1.decay; alpha < 0 can make 1 + alpha*d*d == 0 (ZeroDivisionError)
        ("alpha-nonneg", "implies(" + _MODE + " == 'attn_quad', " + _ALPHA + " >= 0)"),
    ],
    ensures=[
        ("attn-quad", "implies(" + _MODE + " == 'attn_quad', result == 1.0 / (1.0 + " + _ALPHA + " * (distance * distance)))"),
        ("exp-floor", "implies(" + _MODE + " != 'attn_quad', result == max(" + _RATE + " ** distance, " + _FLOOR + "))"),
        ("attn-quad-in-unit-interval", "implies(" + _MODE + " == 'attn_quad', 0 < result and result <= 1)"),
        ("exp-floor-at-least-floor", "implies(" + _MODE + " != 'attn_quad', result >= " + _FLOOR + ")"),
        ("exp-floor-in-unit-interval",
         "implies(" + _MODE + " != 'attn_quad' and 0 < " + _RATE + " and " + _RATE + " <= 1 and " + _FLOOR + " <= 1, 0 < result and result <= 1)"),
    ],
    raises="none",
    nonlinear=True,
)

# ------------------------------------------------------------------ _match_keywords
LBL = "List[Tuple[str, str]]"
_HIT = "(len(%(L)s[%(j)s][1]) > 0 and %(L)s[%(j)s][1].lower() in text.lower())"

# kwhit(text, label) is a definitional abbreviation (axiom below) that keeps string constraints out of quantifier bodies
R.uf("kwhit", ["str", "str"], "bool")
AX_KWHIT = ["forall((l, 'str'), True, kwhit(text, l) == (len(l) > 0 and l.lower() in text.lower()))"]

R.contract(
    T1 + "_match_keywords", "C12",
    types={"text": "str", "labels": LBL},
    returns="Dict[str, float]",
    ensures=[
        # nid in seeds  <=>  some (nid, label) in labels has a non-empty label whose lower-cased form occurs in the
        # lower-cased text (the two directions are separate obligations)
        ("every-matching-label-seeded",
         "forall(j, 0 <= j < len(labels), implies(" + _HIT % {"L": "labels", "j": "j"} + ", labels[j][0] in result))"),
        ("only-matching-labels-seeded",
         "forall((k, 'str'), k in result, exists(j, 0 <= j < len(labels), labels[j][0] == k and " + _HIT % {"L": "labels", "j": "j"} + "))"),
        ("seed-weight-one", "forall((k, 'str'), k in result, result[k] == 1.0)"),
        ("inputs-untouched", "seq_eq(labels, old(labels))"),
    ],
    raises="none",
    axioms=AX_KWHIT,
    sort_facts=False,   # the seeding order does not matter for the seed *set*; keeps str `<=` atoms out of the goals
    loops={0: {"inv": [
        "t == text.lower()",
        "len(_iter) == len(labels)",
        "forall(j, 0 <= j < _i, implies(kwhit(text, _iter[j][1]), _iter[j][0] in seeds))",
        "forall((k, 'str'), k in seeds, exists(j, 0 <= j < _i, _iter[j][0] == k and kwhit(text, _iter[j][1])))",
        "forall((k, 'str'), k in seeds, seeds[k] == 1.0)",
    ]}},
    locals={"seeds": "Dict[str, float]"},
)
