"""C12 -- propagation follows the documented spreading rule within its budgets (clematis/engine/stages/t1.py).

Engine additions used here (see ENGINE_GUIDE.md): optional dictrec keys ("key?"), region contracts (`region=`),
`defaultdict(float)`, trusted heapq multiset model (pyvc/externals.py).
"""
from pyvc.verifier import REG as R

T1 = "clematis/engine/stages/t1.py:"

# ------------------------------------------------------------------ _compute_decay
# t1.decay is filled by the config defaults ({"mode","rate","floor"}); every key may be absent (alpha usually is)
R.dictrec("T1Decay", {"mode?": "str", "alpha?": "float", "rate?": "float", "floor?": "float"})
R.dictrec("T1CfgDecay", {"decay": "T1Decay"})

_MODE = "cfg_t1['decay'].get('mode', 'exp_floor')"
_ALPHA = "cfg_t1['decay'].get('alpha', 0.8)"
_RATE = "cfg_t1['decay'].get('rate', 0.6)"
_FLOOR = "cfg_t1['decay'].get('floor', 0.05)"

R.contract(
    T1 + "_compute_decay", "C12",
    types={"distance": "int", "cfg_t1": "T1CfgDecay"},
    returns="float",
    requires=[
        # type invariant of the callers: d = dist[u] + 1 >= 1
        ("distance-nonneg", "distance >= 0"),
        # the validator does not look into t1.decay; alpha < 0 can make 1 + alpha*d*d == 0 (ZeroDivisionError)
        ("alpha-nonneg", "implies(" + _MODE + " == 'attn_quad', " + _ALPHA + " >= 0)"),
    ],
    ensures=[
        ("attn-quad", "implies(" + _MODE + " == 'attn_quad', result == 1.0 / (1.0 + " + _ALPHA + " * (distance * distance)))"),
        ("exp-floor", "implies(" + _MODE + " != 'attn_quad', result == max(" + _RATE + " ** distance, " + _FLOOR + "))"),
        ("attn-quad-in-unit-interval", "implies(" + _MODE + " == 'attn_quad', 0 < result and result <= 1)"),
        ("exp-floor-at-least-floor", "implies(" + _MODE + " != 'attn_quad', result >= " + _FLOOR + ")"),
        ("exp-floor-in-unit-interval",
         "implies(" + _MODE + " != 'attn_quad' and 0 < " + _RATE + " and " + _RATE + " <= 1 and " + _FLOOR + " <= 1, 0 < result and result <= 1)"),
    ],
    raises="none",
    nonlinear=True,
)

# ------------------------------------------------------------------ _match_keywords
LBL = "List[Tuple[str, str]]"
_HIT = "(len(%(L)s[%(j)s][1]) > 0 and %(L)s[%(j)s][1].lower() in text.lower())"

# kwhit(text, label) is a definitional abbreviation (axiom below) that keeps string constraints out of quantifier bodies
R.uf("kwhit", ["str", "str"], "bool")
AX_KWHIT = ["forall((l, 'str'), True, kwhit(text, l) == (len(l) > 0 and l.lower() in text.lower()))"]

R.contract(
    T1 + "_match_keywords", ["C12", "C01"],   # seeds in sorted label order: also a C01 clause
    types={"text": "str", "labels": LBL},
    returns="Dict[str, float]",
    ensures=[
        # nid in seeds  <=>  some (nid, label) in labels has a non-empty label whose lower-cased form occurs in the
        # lower-cased text (the two directions are separate obligations)
        ("every-matching-label-seeded",
         "forall(j, 0 <= j < len(labels), implies(" + _HIT % {"L": "labels", "j": "j"} + ", labels[j][0] in result))"),
        ("only-matching-labels-seeded",
         "forall((k, 'str'), k in result, exists(j, 0 <= j < len(labels), labels[j][0] == k and " + _HIT % {"L": "labels", "j": "j"} + "))"),
        ("seed-weight-one", "forall((k, 'str'), k in result, result[k] == 1.0)"),
        ("inputs-untouched", "seq_eq(labels, old(labels))"),
    ],
    raises="none",
    axioms=AX_KWHIT,
    sort_facts=False,   # the seeding order does not matter for the seed *set*; keeps str `<=` atoms out of the goals
    loops={0: {"inv": [
        "t == text.lower()",
        "len(_iter) == len(labels)",
        "forall(j, 0 <= j < _i, implies(kwhit(text, _iter[j][1]), _iter[j][0] in seeds))",
        "forall((k, 'str'), k in seeds, exists(j, 0 <= j < _i, _iter[j][0] == k and kwhit(text, _iter[j][1])))",
        "forall((k, 'str'), k in seeds, seeds[k] == 1.0)",
    ]}},
    locals={"seeds": "Dict[str, float]"},
)

# ------------------------------------------------------------------ slice clamps in t1_propagate (region contract)
R.dictrec("T1CfgCaps", {"queue_budget?": "int", "node_budget?": "float", "radius_cap?": "int", "iter_cap?": "int",
                        "iter_cap_layers?": "int", "relax_cap?": "Optional[int]"})
R.objtype("T1SliceCtx", {"slice_budgets": "Optional[Dict[str, int]]"})
R.objtype("T1PlainCtx", {})      # a ctx object that has no `slice_budgets` attribute at all

_SB = "ctx.slice_budgets"
_HAS = "(not is_none(" + _SB + ") and '%s' in some(" + _SB + "))"
_QB = "cfg_t1.get('queue_budget', 10000)"
_BASE_LAYERS = "min(cfg_t1.get('iter_cap_layers', 50), cfg_t1.get('iter_cap', 50))"
_REGION = ("queue_budget = int(cfg_t1.get(", "effective_queue_budget = (")

R.contract(
    T1 + "t1_propagate", ["C12", "C17"], name="t1_propagate[slice-clamps]", callee=False,
    region=_REGION,
    types={"ctx": "T1SliceCtx", "state": "None", "text": "str", "cfg_t1": "T1CfgCaps"},
    ensures=[
        ("pops-budget-is-min-of-config-and-slice",
         "effective_queue_budget == ite(" + _HAS % "t1_pops" + ", min(" + _QB + ", some(" + _SB + ")['t1_pops']), " + _QB + ")"),
        ("layer-cap-is-min-of-config-and-slice",
         "effective_iter_cap_layers == ite(" + _HAS % "t1_iters" + ", min(" + _BASE_LAYERS + ", some(" + _SB + ")['t1_iters']), " + _BASE_LAYERS + ")"),
        ("never-above-config", "effective_queue_budget <= " + _QB + " and effective_iter_cap_layers <= cfg_t1.get('iter_cap_layers', 50) "
                               "and effective_iter_cap_layers <= cfg_t1.get('iter_cap', 50)"),
        ("never-above-slice-cap",
         "implies(" + _HAS % "t1_pops" + ", effective_queue_budget <= some(" + _SB + ")['t1_pops']) and "
         "implies(" + _HAS % "t1_iters" + ", effective_iter_cap_layers <= some(" + _SB + ")['t1_iters'])"),
        ("config-read-as-documented",
         "queue_budget == " + _QB + " and radius_cap == cfg_t1.get('radius_cap', 4) and node_budget == cfg_t1.get('node_budget', 1.5) "
         "and iter_cap == cfg_t1.get('iter_cap', 50)"),
        ("slice-caps-read-only", "seq_eq(" + _SB + ", old(" + _SB + "))"),
    ],
    raises="none",
)

# ------------------------------------------------------------------ output region of _t1_one_graph
ONE = T1 + "t1_propagate.<locals>._t1_one_graph"
# node ids are only hashed and compared by this code: modelled as an opaque totally ordered sort (any such key type,
# python str included); keeps string ordering out of the quantified goals
R.untype("Nid")
R.keyrec("T1Delta", {"op": "str", "id": "Un[Nid]"})
_SORTED_ITEMS = [    # facts about `sorted(acc.items(), key=kv[0])`, proved at loop entry from the sorted()/items() model
    "forall(m, 0 <= m < len(_iter), _iter[m][0] in acc and acc[_iter[m][0]] == _iter[m][1])",
    "forall((k, 'Un[Nid]'), k in acc, exists(m, 0 <= m < len(_iter), _iter[m][0] == k))",
    "forall2(m, m2, 0 <= m and m < m2 and m2 < len(_iter), _iter[m][0] < _iter[m2][0])",
]
R.contract(
    ONE, ["C12", "C01"], name="_t1_one_graph[output-region]", callee=False,
    region=("deltas_for_gid: List[Dict[str, Any]] = []", "for nid, val in sorted(acc.items()"),
    types={"gid": "str", "acc": "Dict[Un[Nid], float]"},
    ensures=[
        ("ids-strictly-increasing",
         "forall2(i, j, 0 <= i and i < j and j < len(deltas_for_gid), deltas_for_gid[i]['id'] < deltas_for_gid[j]['id'])"),
        ("only-touched-nodes-above-eps",
         "forall(i, 0 <= i < len(deltas_for_gid), deltas_for_gid[i]['op'] == 'upsert_node' and deltas_for_gid[i]['id'] in acc "
         "and abs(acc[deltas_for_gid[i]['id']]) >= EPS)"),
        ("every-touched-node-above-eps-reported",
         "forall((k, 'Un[Nid]'), k in acc and abs(acc[k]) >= EPS, exists(i, 0 <= i < len(deltas_for_gid), deltas_for_gid[i]['id'] == k))"),
        ("acc-untouched", "seq_eq(acc, old(acc))"),
    ],
    raises="none",
    loops={5: {"inv": _SORTED_ITEMS + [
        "len(deltas_for_gid) <= _i",
        "forall(j, 0 <= j < len(deltas_for_gid), deltas_for_gid[j]['op'] == 'upsert_node' and "
        "  exists(m, 0 <= m < _i, _iter[m][0] == deltas_for_gid[j]['id'] and abs(_iter[m][1]) >= EPS))",
        "forall(m, 0 <= m < _i, implies(abs(_iter[m][1]) >= EPS, exists(j, 0 <= j < len(deltas_for_gid), deltas_for_gid[j]['id'] == _iter[m][0])))",
        "forall2(i, j, 0 <= i and i < j and j < len(deltas_for_gid), deltas_for_gid[i]['id'] < deltas_for_gid[j]['id'])",
        "forall(j, 0 <= j < len(deltas_for_gid), forall(m, _i <= m < len(_iter), deltas_for_gid[j]['id'] < _iter[m][0]))",
    ]}},
    locals={"deltas_for_gid": "List[T1Delta]"},
)

# ------------------------------------------------------------------ label collection + seeding region of _t1_one_graph
# "seeds only nodes whose label or tag occurs in the input text" (soundness direction of "exactly"; the converse --
# every such node is seeded -- needs `exists j` witnesses through two nested append loops and is not discharged yet:
# z3 times out on re-establishing them across the Store-encoded appends; _match_keywords itself is proved both ways).
# Node = the dataclass fields read here; attrs is a dict read only through .get("tags", []): a missing key is the same
# as []; tags are strings (type invariant of the graph store: the isinstance(kw, str) filter is then always true).
R.keyrec("T1Attrs", {"tags": "List[str]"})
R.record("T1Node", {"id": "str", "label": "str", "attrs": "T1Attrs"})
R.untype("NKey")      # the keys of g.nodes are only iterated (values()), never inspected
R.objtype("T1Graph", {"nodes": "Dict[Un[NKey], T1Node]"})
_TAGS = "node_tags(%(n)s)"
_NODE_HIT = "(kwhit(text, %(n)s.label) or exists(t, 0 <= t < len(" + _TAGS + "), kwhit(text, " + _TAGS + "[t])))"
_LBL_OF = ("(%(l)s[0] == %(n)s.id and len(%(l)s[1]) > 0 and (%(l)s[1] == %(n)s.label or "
           "exists(t, 0 <= t < len(" + _TAGS + "), " + _TAGS + "[t] == %(l)s[1])))")
R.contract(
    ONE, "C12", name="_t1_one_graph[label-collection region]", callee=False,
    region=("labels: List[Tuple[str, str]] = []", "seeds = _match_keywords(text, labels)"),
    types={"gid": "str", "g": "T1Graph", "text": "str"},
    axioms=AX_KWHIT,
    ensures=[
        ("only-nodes-with-matching-label-or-tag-seeded",
         "forall((s, 'str'), s in seeds, exists((k, 'Un[NKey]'), k in g.nodes, g.nodes[k].id == s and " + _NODE_HIT % {"n": "g.nodes[k]"} + "))"),
        ("every-collected-label-belongs-to-a-node",
         "forall(j, 0 <= j < len(labels), exists((k, 'Un[NKey]'), k in g.nodes, " + _LBL_OF % {"l": "labels[j]", "n": "g.nodes[k]"} + "))"),
        ("seed-weight-one", "forall((s, 'str'), s in seeds, seeds[s] == 1.0)"),
        ("graph-untouched", "seq_eq(g.nodes, old(g.nodes))"),
    ],
    raises="none",
    loops={
        0: {"inv": [
            "forall(j, 0 <= j < len(labels), exists((k, 'Un[NKey]'), k in _done, " + _LBL_OF % {"l": "labels[j]", "n": "g.nodes[k]"} + "))",
        ]},
        # inner loop: the entries present at its start are kept; what it appends comes from the tags of `n` seen so far
        1: {"index": "_t", "iter": "_tags", "inv": [
            "seq_eq(_tags, " + _TAGS % {"n": "n"} + ")",
            "len(pre_loop(labels)) <= len(labels)",
            "forall(j, 0 <= j < len(pre_loop(labels)), labels[j] == pre_loop(labels)[j])",
            "forall(j, len(pre_loop(labels)) <= j and j < len(labels), labels[j][0] == n.id and len(labels[j][1]) > 0 and "
            "exists(t, 0 <= t < _t, _tags[t] == labels[j][1]))",
        ]},
    },
    locals={"labels": LBL, "tags": "List[str]"},
    feas_timeout_ms=60,
    unreachable_ok=["tags = []"],    # the `except Exception` arm: list(attrs.get("tags", [])) cannot raise for a dict-valued attrs
)

# ------------------------------------------------------------------ propagation of _t1_one_graph (two regions x perf off/on)
# heap `pq` = trusted multiset model (pyvc/externals.py: heappush adds, heappop removes and returns a least tuple,
# nsmallest = prefix of sorted); acc = defaultdict(float).  t1_reach(v, d) is any relation closed under "seeds at distance 0"
# and "one csr edge = one more hop" (axioms below): what is proved of it holds of true reachability, the least such relation.
# The region is cut in two at the `while`: [seeding] establishes the loop-entry facts _LOOP_FACTS, [propagation loop] assumes
# exactly the same list as its precondition (same python object: the two contracts cannot drift apart) and proves the
# budget / radius / reachability / counter clauses.  With the PR31 perf structures ON, the dedupe ring and the visited set
# are *arbitrary* objects (any answers of contains()/add(); their real behaviour is C15's business) and the frontier cap
# evicts through heapq.nsmallest: the clauses hold whatever they answer.
R.record("T1Edge", {"weight": "float", "rel": "str"})
R.uf("t1_reach", ["Un[Nid]", "int"], "bool")
CSR_T = "Dict[Un[Nid], List[Tuple[Un[Nid], T1Edge]]]"
NMAP = "Dict[Un[Nid], float]"
PQ_T = "List[Tuple[float, Un[Nid], Un[Nid], float]]"
R.dictrec("T1DecayFull", {"mode": "str", "alpha": "float", "rate": "float", "floor": "float"})
R.dictrec("T1CfgDecayFull", {"decay": "T1DecayFull"})
R.funtype("T1RingContains", params=["x"], returns="bool")
R.funtype("T1RingAdd", params=["x"], returns="bool")
R.objtype("T1AnyKeySet", {"contains": "T1RingContains", "add": "T1RingAdd"})
R.funtype("T1KeySetCtor", params=["k"], returns="T1AnyKeySet")
_RC1 = "(not is_none(relax_cap) and some(relax_cap) >= 1)"
_CAPS = ("forall((v, 'Un[Nid]'), v in dist, t1_reach(v, dist[v]) and (dist[v] == 0 or "
         "(1 <= dist[v] and dist[v] <= radius_cap and dist[v] <= effective_iter_cap_layers)))")
_COMMON_INV = [
    _CAPS,
    "forall((v, 'Un[Nid]'), v in acc, v in dist)",
    "forall(p, 0 <= p < len(pq), pq[p][2] in dist)",
    "forall((s, 'Un[Nid]'), s in seeds, s in acc)",
    "propagations >= 0 and radius_cap_hits_local >= 0 and layer_hits_local >= 0 and node_budget_hits_local >= 0 and layers_processed >= 0",
    "implies(" + _RC1 + ", propagations < some(relax_cap))",
    # a relaxation cap of 0 (or below) admits no relaxation at all (the property quantifies over caps incl. 0)
    "implies(not is_none(relax_cap) and some(relax_cap) <= 0, propagations == 0)",
]
_LOOP_FACTS = _COMMON_INV + ["0 <= pops and pops <= max(effective_queue_budget, 0) and pops == heap_pops"]
_REACH_AXIOMS = [
    "forall((s, 'Un[Nid]'), s in seeds, t1_reach(s, 0))",
    "forall((u, 'Un[Nid]'), u in csr, forall(i, 0 <= i < len(csr[u]), forall(d, t1_reach(u, d), t1_reach(csr[u][i][0], d + 1))))",
]
_CFG_TYPES = {"gid": "str", "csr": CSR_T, "seeds": NMAP, "cfg_t1": "T1CfgDecayFull", "edge_mult": "Dict[str, float]",
              "radius_cap": "int", "effective_iter_cap_layers": "int", "effective_queue_budget": "int", "node_budget": "float",
              "relax_cap": "Optional[int]", "dedupe_window_cfg": "int", "visited_cap_cfg": "int"}
_PERF_OFF_DEAD = [   # perf-cap structures are off in this variant (ring, visited_lru, frontier cap are None)
    "local_t1_dedup_hits = 1", "ev = len(pq) - effective_frontier_cap", "pq = heapq.nsmallest(", "heapq.heapify(pq)",
    "local_t1_frontier_evicted = ev", "local_t1_frontier_evicted_total += ev", "if ring:", "local_t1_dedup_hits_total += 1",
    "if visited_lru and visited_lru.contains(u):", "if visited_lru:"]
# dead code by the loop invariant: every dist[v] > 0 is <= effective_iter_cap_layers (deeper relaxations are skipped at the
# edge, `layer_hits_local`), so a popped node never has layers_processed > effective_iter_cap_layers
_DEAD_LAYER_CHECK = ["if layers_processed > effective_iter_cap_layers:"]
_LOOP_ENSURES = [
    ("pops-within-budget", "0 <= pops and pops <= max(effective_queue_budget, 0)"),
    ("pops-counter-matches-heap-pops", "pops == heap_pops"),
    ("relaxations-within-cap", "implies(not is_none(relax_cap), propagations <= max(some(relax_cap), 0))"),
    ("touched-nodes-reachable-within-radius-and-layer-caps",
     "forall((v, 'Un[Nid]'), v in acc, v in dist and t1_reach(v, dist[v]) and 0 <= dist[v] and "
     "(dist[v] == 0 or (dist[v] <= radius_cap and dist[v] <= effective_iter_cap_layers)))"),
    ("every-seed-touched", "forall((s, 'Un[Nid]'), s in seeds, s in acc)"),
    ("counters-nonnegative", "propagations >= 0 and radius_cap_hits_local >= 0 and layer_hits_local >= 0 and node_budget_hits_local >= 0"),
    ("graph-index-and-seeds-untouched", "seq_eq(csr, old(csr)) and seq_eq(seeds, old(seeds)) and seq_eq(edge_mult, old(edge_mult))"),
]
_LOCALS = {"acc": NMAP, "dist": "Dict[Un[Nid], int]", "pq": PQ_T, "local_t1_dedup_hits": "int", "local_t1_frontier_evicted": "int",
           "local_max_delta": "float", "ev": "int"}

# the spreading rule itself ("spreads activation along edges as weight x relation multiplier x distance decay ... never
# exceeding its ... budgets"), stated where the loop *skips* work and where it relaxes an edge:
#  * a popped entry is left unexpanded only for a documented reason: visited (perf cap), layer cap reached, node budget
#    reached, no out-edges, or every out-edge is beyond the radius / layer cap anyway (skip:while);
#  * an out-edge is passed over only beyond the radius / layer cap or when |w x weight x multiplier x decay| < EPS (skip:for);
#  * the contribution added to the target is w x weight x multiplier(rel, default 0.6) x decay(dist[u] + 1).
# `check:` clauses are proved at the cut points and not kept as hypotheses.
_SPREAD_CUTS = {
    "skip:while": ["check:(not is_none(visited_lru)) or (dist.get(u, 0) > 0 and layers_processed > effective_iter_cap_layers) or "
                   "abs(acc[u]) >= node_budget or not (u in csr) or dist[u] + 1 > radius_cap or dist[u] + 1 > effective_iter_cap_layers"],
    "d": ["ghost:g_has_decay = False"],
    "decay": ["ghost:g_decay = decay", "ghost:g_has_decay = True"],
    "skip:for": ["check:d > radius_cap or d > effective_iter_cap_layers or "
                 "(g_has_decay and abs(w * e.weight * edge_mult.get(e.rel, 0.6) * g_decay) < EPS)"],
    "contrib": ["check:contrib == w * e.weight * edge_mult.get(e.rel, 0.6) * decay"],
}
for _perf in (False, True):
    _tag = "perf caps on" if _perf else "perf caps off"
    _perf_types = ({"perf_enabled": "=True", "effective_frontier_cap": "int"} if _perf
                   else {"perf_enabled": "=False", "effective_frontier_cap": "=None"})
    _perf_req = [("perf-structures-on", "dedupe_window_cfg > 0 and visited_cap_cfg > 0")] if _perf else []
    # ---- [seeding]: accumulators, perf structures, heap seeding -> the facts the while loop starts from
    R.contract(
        ONE, "C12", name="_t1_one_graph[seeding region, %s]" % _tag, callee=False,
        region=("acc = defaultdict(float)", "if 'local_t1_frontier_evicted' in locals():"),
        types=dict(_CFG_TYPES, DedupeRing="T1KeySetCtor", DeterministicLRUSet="T1KeySetCtor", **_perf_types),
        ghost={"heap_pops": ("int", "0")},     # incremented by the trusted heappop model
        axioms=_REACH_AXIOMS,
        requires=_perf_req,
        ensures=[("loop-entry-fact#%d" % i, f) for i, f in enumerate(_LOOP_FACTS)] + [
            ("every-seed-at-distance-zero", "forall((s, 'Un[Nid]'), s in seeds, s in dist and dist[s] == 0 and acc[s] == seeds[s])"),
            ("only-seeds-touched-so-far", "forall((v, 'Un[Nid]'), v in acc, v in seeds)"),
            ("graph-index-and-seeds-untouched", "seq_eq(csr, old(csr)) and seq_eq(seeds, old(seeds))"),
        ],
        raises="none",
        loops={2: {"inv": [
            "forall((k, 'Un[Nid]'), k in _done, k in acc and acc[k] == seeds[k] and k in dist and dist[k] == 0)",
            "forall((k, 'Un[Nid]'), k in acc, k in _done)",
            "forall((k, 'Un[Nid]'), k in dist, k in _done)",
            "forall(p, 0 <= p < len(pq), pq[p][2] in _done)",
            "local_max_delta >= 0",
        ]}},
        locals=_LOCALS,
        feas_timeout_ms=60, named_seqs=True,
        unreachable_ok=(["local_t1_dedup_hits = 1", "ev = len(pq) - effective_frontier_cap", "pq = heapq.nsmallest(", "heapq.heapify(pq)",
                         "local_t1_frontier_evicted = ev", "if ring:"] if not _perf else []),
    )
    # ---- [propagation loop]: the while loop alone, from any state satisfying the loop-entry facts
    R.contract(
        ONE, "C12", name="_t1_one_graph[propagation-loop region, %s]" % _tag, callee=False,
        region=("while pq and pops", "while pq and pops"),
        types=dict(_CFG_TYPES, acc="DefaultDict[Un[Nid], float]", dist="Dict[Un[Nid], int]", pq=PQ_T, pops="int", layers_processed="int",
                   propagations="int", layer_hits_local="int", radius_cap_hits_local="int", node_budget_hits_local="int",
                   local_max_delta="float", local_t1_dedup_hits_total="int", local_t1_frontier_evicted_total="int",
                   local_t1_visited_evicted_total="int",
                   ring=("T1AnyKeySet" if _perf else "=None"), visited_lru=("T1AnyKeySet" if _perf else "=None"), **_perf_types),
        ghost={"heap_pops": ("int", "any"), "g_decay": ("float", "any"), "g_has_decay": ("bool", "False")},
        axioms=_REACH_AXIOMS,
        requires=[("alpha-nonneg", "implies(cfg_t1['decay']['mode'] == 'attn_quad', cfg_t1['decay']['alpha'] >= 0)")]
        + [("loop-entry-fact#%d" % i, f) for i, f in enumerate(_LOOP_FACTS)],
        ensures=_LOOP_ENSURES,
        raises="none",
        loops={3: {"inv": _LOOP_FACTS, "modifies": ["g_decay", "g_has_decay"]},
               4: {"inv": _COMMON_INV + ["u in dist and u in csr"], "modifies": ["g_decay", "g_has_decay"]}},
        asserts=_SPREAD_CUTS,
        locals=_LOCALS,
        feas_timeout_ms=60, named_seqs=True,
        unreachable_ok=(_DEAD_LAYER_CHECK if _perf else ["local_t1_dedup_hits_total += 1", "ev = len(pq) - effective_frontier_cap",
                                                         "pq = heapq.nsmallest(", "heapq.heapify(pq)", "local_t1_frontier_evicted_total += ev",
                                                         "if ring:", "if visited_lru and visited_lru.contains(u):", "if visited_lru:"]
                        + _DEAD_LAYER_CHECK),
    )

R.contract(
    T1 + "t1_propagate", ["C12", "C17"], name="t1_propagate[slice-clamps,no-slice-attr]", callee=False,
    region=_REGION,
    types={"ctx": "T1PlainCtx", "state": "None", "text": "str", "cfg_t1": "T1CfgCaps"},
    ensures=[
        ("no-slice-budgets-means-config-caps",
         "effective_queue_budget == " + _QB + " and effective_iter_cap_layers == " + _BASE_LAYERS),
    ],
    raises="none",
)


# ------------------------------------------------------------------ frame: t1 never writes the graph store
def _t1_frame_lemma():
    """Syntactic frame check over the *current* source of t1_propagate (incl. the closure _t1_one_graph):
    names that (transitively) alias the store / a graph / a node / an edge / the csr index are `tainted`; then
      (1) no attribute/subscript store, augmented store or `del` goes through a tainted name,
      (2) every method called on a tainted object is one of the read accessors below,
      (3) a tainted object is passed as an argument only to side-effect free builtins / dict.get,
      (4) `store` is bound exactly once, from state.get("store").
    Each rule is one named goal (BoolVal); a violated goal carries the offending line numbers in its name."""
    import ast
    import z3
    from pyvc import frontend
    mod = frontend.load_module("clematis/engine/stages/t1.py")
    fn = mod.functions["t1_propagate"]
    READ_METHODS = {"get_graph", "version_etag", "csr", "values", "items", "keys", "get"}
    # DedupeRing.contains/add only hash, compare and store their argument (contracts in c15_lru.py)
    KEY_ONLY = {("ring", "contains"), ("ring", "add")}
    PURE_FUNCS = {"getattr", "list", "float", "int", "str", "abs", "len", "isinstance", "sorted", "tuple", "bool", "hasattr"}

    def root(e):
        while True:
            if isinstance(e, (ast.Attribute, ast.Subscript, ast.Starred)):
                e = e.value
            elif isinstance(e, ast.Call):
                f = e.func
                if isinstance(f, ast.Attribute):
                    e = f.value
                elif isinstance(f, ast.Name) and f.id in ("getattr", "list", "sorted", "tuple") and e.args:
                    e = e.args[0]
                else:
                    return None
            elif isinstance(e, ast.Name):
                return e.id
            else:
                return None

    def names_of(t, out):
        if isinstance(t, ast.Name):
            out.add(t.id)
        elif isinstance(t, (ast.Tuple, ast.List)):
            for x in t.elts:
                names_of(x, out)

    tainted = {"store"}
    changed = True
    while changed:
        changed = False
        for n in ast.walk(fn):
            tgts, src = [], None
            if isinstance(n, ast.Assign):
                tgts, src = n.targets, n.value
            elif isinstance(n, ast.AnnAssign) and n.value is not None:
                tgts, src = [n.target], n.value
            elif isinstance(n, (ast.For, ast.comprehension)):
                tgts, src = [n.target], n.iter
            elif isinstance(n, ast.NamedExpr):
                tgts, src = [n.target], n.value
            if src is not None and root(src) in tainted:
                new = set()
                for t in tgts:
                    names_of(t, new)
                # scalars read out of the graph (ids, labels, weights) are values, not aliases
                if isinstance(src, ast.Call) and isinstance(src.func, ast.Name) and src.func.id in ("float", "int", "str", "len"):
                    new = set()
                if not new <= tainted:
                    tainted |= new
                    changed = True
    bad_store, bad_call, bad_escape, store_binds = [], [], [], []
    for n in ast.walk(fn):
        stores = []
        if isinstance(n, ast.Assign):
            stores = list(n.targets)
        elif isinstance(n, (ast.AugAssign, ast.AnnAssign)):
            stores = [n.target]
        elif isinstance(n, ast.Delete):
            stores = list(n.targets)
        flat = []
        for t in stores:
            flat.extend(t.elts if isinstance(t, (ast.Tuple, ast.List)) else [t])
        for t in flat:
            if isinstance(t, (ast.Attribute, ast.Subscript)) and root(t) in tainted:
                bad_store.append(t.lineno)
            if isinstance(t, ast.Name) and t.id == "store":
                store_binds.append(ast.unparse(n.value) if hasattr(n, "value") and n.value is not None else "?")
        if isinstance(n, (ast.Global, ast.Nonlocal)) and "store" in n.names:
            store_binds.append("global/nonlocal")
        if isinstance(n, ast.Call):
            f = n.func
            if isinstance(f, ast.Attribute) and root(f.value) in tainted and f.attr not in READ_METHODS:
                bad_call.append(n.lineno)
            if isinstance(f, ast.Name) and f.id in ("setattr", "delattr"):
                bad_call.append(n.lineno)
            pure = (isinstance(f, ast.Name) and f.id in PURE_FUNCS) or (isinstance(f, ast.Attribute) and f.attr in ("get", "append")) \
                or (isinstance(f, ast.Attribute) and isinstance(f.value, ast.Name) and (f.value.id, f.attr) in KEY_ONLY)
            for a in list(n.args) + [k.value for k in n.keywords]:
                # whole tainted objects (not scalars read out of them) handed to anything but a pure builtin
                if isinstance(a, ast.Name) and a.id in tainted and not pure:
                    bad_escape.append(n.lineno)

    def goal(ok_list, tag):
        if not ok_list:
            return z3.BoolVal(True)
        return z3.And(z3.BoolVal(False), z3.Bool("%s_at_lines_%s" % (tag, "_".join(str(x) for x in sorted(set(ok_list))))))
    return [
        ("no-store-through-graph-objects", [], goal(bad_store, "store")),
        ("only-read-accessors-called-on-graph-objects", [], goal(bad_call, "call")),
        ("graph-objects-escape-only-to-pure-builtins", [], goal(bad_escape, "escape")),
        ("store-bound-once-from-state", [], z3.BoolVal(store_binds == ["state.get('store')"])),
        ("alias-set-is-the-expected-one", [], z3.BoolVal({"store", "g", "n", "csr", "e"} <= tainted)),
    ]


R.lemma("t1-frame", "C12", _t1_frame_lemma)


def _store_accessor_lemma():
    """The frame clause above relies on the three store accessors T1 calls being read-only.  For the in-repo store
    (clematis/graph/store.py:InMemoryGraphStore) this is checked here: following self.<method>() calls, an accessor must
    not assign / delete / call a mutator through `self`.
    Today this FAILS: get_graph / csr / version_etag all go through `ensure(gid)`, which inserts a fresh empty ConceptGraph
    for an unknown gid (`self._graphs[gid] = ...`) -- natively: t1_propagate(ctx, {"store": InMemoryGraphStore(),
    "active_graphs": ["ghost"]}, "x") leaves store._graphs == {"ghost": <empty graph>}."""
    import ast
    import z3
    from pyvc import frontend
    from pyvc.modset import MUTATORS
    mod = frontend.load_module("clematis/graph/store.py")
    ci = mod.classes["InMemoryGraphStore"]

    def root(e):
        while isinstance(e, (ast.Attribute, ast.Subscript)):
            e = e.value
        return e.id if isinstance(e, ast.Name) else None

    def writes_self(mname, seen):
        if mname in seen or mname not in ci.methods:
            return []
        seen.add(mname)
        out = []
        for n in ast.walk(ci.methods[mname]):
            tg = []
            if isinstance(n, ast.Assign):
                tg = n.targets
            elif isinstance(n, (ast.AugAssign, ast.AnnAssign)):
                tg = [n.target]
            elif isinstance(n, ast.Delete):
                tg = n.targets
            for t in tg:
                if isinstance(t, (ast.Attribute, ast.Subscript)) and root(t) == "self":
                    out.append("%s:%d" % (mname, t.lineno))
            if isinstance(n, ast.Call) and isinstance(n.func, ast.Attribute):
                if root(n.func.value) == "self" and isinstance(n.func.value, ast.Name):
                    out.extend(writes_self(n.func.attr, seen))          # self.method(...)
                elif root(n.func.value) == "self" and n.func.attr in MUTATORS:
                    out.append("%s:%d" % (mname, n.lineno))
        return out
    w = []
    for acc in ("get_graph", "csr", "version_etag"):
        w.extend("%s_via_%s" % (acc, x.replace(":", "_line")) for x in writes_self(acc, set()))
    g = z3.BoolVal(True) if not w else z3.And(z3.BoolVal(False), z3.Bool("writes_self__" + "__".join(w)))
    return [("InMemoryGraphStore-accessors-used-by-t1-are-read-only", [], g)]


R.lemma("t1-frame-store-accessors", "C12", _store_accessor_lemma)
