"""C19 (per-function part): summary clamp, ops cap and deterministic ids of the reflection path.

The structural clauses over run_turn / _run_reflection_if_enabled (gates, fail-soft, call counts) live in
contracts/f_runturn.py.

Trusted models used here
 * str.split / str.join are uninterpreted in the engine.  Two facts about them are assumed, *instantiated only for the
   lists that `_truncate_tokens` builds* (contract `axioms=`):
     (SPLIT-NOSEP)  no element of `s.split(" ")` contains " ";
     (JOIN-SPLIT)   for a non-empty list xs of strings without " ":  " ".join(xs).split(" ") == xs.
   Both are plain facts of CPython's str.split(sep)/str.join.
 * hashlib.sha256 is an uninterpreted deterministic function of the bytes fed to it (pyvc/externals.py:_hashlib_new);
   bytes are modelled as the text they encode (`.encode("utf-8")` = identity, may raise UnicodeEncodeError).
 * `_normalize` (regex based) is an uninterpreted deterministic function of (text, keep_punct); `_maybe_embed` (numerics,
   ND in DESIGN.md) is an arbitrary optional vector without side effects.
"""
import ast
from pyvc.verifier import REG as R
from pyvc.effects import result as fresult

RF = "clematis/engine/stages/t3/reflect.py:"
WR = "clematis/engine/orchestrator/reflection.py:"

R.uf("sha256_hex", ["str"], "str")

# ------------------------------------------------------------------ _truncate_tokens
# "a summary within the token limit": tokens are whitespace separated words -- the unit reflect() itself reports
# (`summary_len = len(summary.split())`) and the unit of t3.reflection.summary_tokens.  (A first version of this
# contract counted `split(" ")` pieces, i.e. it encoded the code; stated in whitespace tokens the clause failed for
# texts with tabs / newlines from the LLM backend, see DESIGN section 8.)
R.contract(
    RF + "_truncate_tokens", "C19",
    types={"text": "str", "max_tokens": "int"},
    returns="str",
    ensures=[
        ("at-most-limit-tokens", "ws_tokens(result) <= max(max_tokens, 0)"),
        ("nonpositive-limit-or-empty-text-gives-empty", "implies(max_tokens <= 0 or text == '', result == '')"),
        ("keeps-the-first-tokens",
         "implies(max_tokens > 0 and text != '', len(result.split()) == min(max_tokens, len(text.split())) and "
         "forall(i, 0 <= i < len(result.split()), result.split()[i] == text.split()[i]))"),
    ],
    raises="none",
    modifies=[],
)

# ------------------------------------------------------------------ _episode_id / _now_iso_from_ctx
R.objtype("ReflCtx", {"agent_id": "str", "turn_id": "str", "now_ms": "int", "now_iso": "Optional[str]"})
R.objtype("ReflCtxIntTurn", {"agent_id": "str", "turn_id": "int", "now_ms": "int"})
R.objtype("BareCtx", {})

R.contract(
    WR + "_episode_id", "C19",
    types={"ctx": "ReflCtx", "slot": "int", "text": "str"},
    returns="str",
    ensures=[("function-of-agent-turn-slot-text-only",
              "result == episode_id_of(ctx.agent_id, ctx.turn_id, slot, text)")],
    raises={"UnicodeEncodeError": "True"},      # lone surrogates in agent id / text (caught by the writer's per-entry handler)
    modifies=[],
)
R.contract(
    WR + "_episode_id", "C19", name="_episode_id[int turn id]", callee=False,
    types={"ctx": "ReflCtxIntTurn", "slot": "int", "text": "str"},
    returns="str",
    requires=[("turn-counter-nonneg", "ctx.turn_id >= 0")],     # keeps str(int) free of the sign case split (z3 strings)
    ensures=[("function-of-agent-turn-slot-text-only",
              "result == episode_id_of(ctx.agent_id, str(ctx.turn_id), slot, text)")],
    raises={"UnicodeEncodeError": "True"},
)
R.contract(
    WR + "_episode_id", "C19", name="_episode_id[ctx without ids]", callee=False,
    types={"ctx": "BareCtx", "slot": "int", "text": "str"},
    returns="str",
    ensures=[("defaults-unknown-and-0", "result == episode_id_of('unknown', '0', slot, text)")],
    raises={"UnicodeEncodeError": "True"},
)

R.contract(
    WR + "_now_iso_from_ctx", "C19",
    types={"ctx": "ReflCtx"},
    returns="str",
    ensures=[
        ("prefers-ctx-now_iso", "implies(not is_none(ctx.now_iso), result == some(ctx.now_iso))"),
        ("fallback-is-a-function-of-now_ms-only",
         "implies(is_none(ctx.now_iso), "
         " result == f'1970-01-01T00:00:{ctx.now_ms // 1000:02d}.{ctx.now_ms % 1000:03d}Z')"),
    ],
    raises="none",
    modifies=[],
)
R.contract(
    WR + "_now_iso_from_ctx", "C19", name="_now_iso_from_ctx[ctx without clock]", callee=False,
    types={"ctx": "BareCtx"},
    returns="str",
    ensures=[("constant-epoch", "result == f'1970-01-01T00:00:{0 // 1000:02d}.{0 % 1000:03d}Z'")],
    raises="none",
    unreachable_ok=["return ctx.now_iso"],
)


# Engine F: the read set of the two id/timestamp helpers, on the AST: `ctx` is used only as
# getattr(ctx, <allowed>, ...) / hasattr(ctx, <allowed>) / ctx.<allowed>, no other free name than the parameters,
# builtins and hashlib is read, and nothing is called on time / random / os / uuid.
def reads_only(allowed_attrs, allowed_globals):
    def fn(cl, mod, cls, func):
        params = {a.arg for a in func.args.posonlyargs + func.args.args + func.args.kwonlyargs}
        assigned = {n.id for n in ast.walk(func) if isinstance(n, ast.Name) and isinstance(n.ctx, ast.Store)}
        bad_ctx, bad_names = [], []
        ok_ctx_nodes = set()
        annot = set()       # type annotations are not evaluated reads
        for a in func.args.posonlyargs + func.args.args + func.args.kwonlyargs:
            if a.annotation is not None:
                annot.update(id(x) for x in ast.walk(a.annotation))
        if func.returns is not None:
            annot.update(id(x) for x in ast.walk(func.returns))
        for n in ast.walk(func):
            if isinstance(n, ast.Call) and isinstance(n.func, ast.Name) and n.func.id in ("getattr", "hasattr") and n.args \
                    and isinstance(n.args[0], ast.Name) and n.args[0].id == "ctx":
                if len(n.args) >= 2 and isinstance(n.args[1], ast.Constant) and n.args[1].value in allowed_attrs:
                    ok_ctx_nodes.add(id(n.args[0]))
            if isinstance(n, ast.Attribute) and isinstance(n.value, ast.Name) and n.value.id == "ctx" and n.attr in allowed_attrs:
                ok_ctx_nodes.add(id(n.value))
        for n in ast.walk(func):
            if isinstance(n, ast.Name) and isinstance(n.ctx, ast.Load) and id(n) not in annot:
                if n.id == "ctx":
                    if id(n) not in ok_ctx_nodes:
                        bad_ctx.append(n.lineno)
                elif n.id not in params and n.id not in assigned and n.id not in allowed_globals:
                    bad_names.append("%s@L%d" % (n.id, n.lineno))
        out = [fresult(cl["name"] + "/ctx-fields", "proved" if not bad_ctx else "failed",
                       "" if not bad_ctx else "ctx is read other than through %s at lines %s" % (sorted(allowed_attrs), bad_ctx)),
               fresult(cl["name"] + "/no-other-inputs", "proved" if not bad_names else "failed",
                       "" if not bad_names else "reads of names that are neither parameters nor allowed builtins: %s" % bad_names)]
        return out
    return fn


R.fclause("C19", "episode-id/reads-only-agent-turn-slot-text", "custom", WR + "_episode_id",
          fn=reads_only({"agent_id", "turn_id"}, {"hashlib", "str", "getattr"}))
R.fclause("C19", "now-iso/reads-only-now_iso-now_ms", "custom", WR + "_now_iso_from_ctx",
          fn=reads_only({"now_iso", "now_ms"}, {"int", "str", "getattr", "hasattr", "isinstance"}))

# ------------------------------------------------------------------ write_reflection_entries
# entries are dicts with string keys and arbitrary (uninterpreted) values; the index is an object whose `add` may raise
# anything (ghost `attempts` / `successes` count the calls and the calls that returned).  `_normalize_entry` is assumed
# (not verified: list()/str() of arbitrary JSON values): it returns an episode dict or raises.
R.untype("J")
R.record("WriteReport", {"ops_attempted": "int", "ops_written": "int", "errors": "List[str]", "reason": "Optional[str]",
                         "index_kind": "Optional[str]", "ts_iso": "Optional[str]"})
R.dictrec("EpisodeRec", {"id": "str", "owner": "str", "ts": "str", "kind": "str", "tags": "List[str]", "text": "str"})
R.funtype("IndexAdd", params=["ep"], raises="Exception",
          effects_before=["attempts.append(1)"], effects=["successes.append(1)"])
R.objtype("ReflMemIndex", {"add": "IndexAdd", "kind": "Optional[str]"})
R.optobj("OptMemIndex", "ReflMemIndex")
R.objtype("WState", {"memory_index": "OptMemIndex"})
R.objtype("WResult", {"memory_entries": "List[Dict[str, Un[J]]]"})
R.optobj("OptWResult", "WResult")
R.dictrec("WBudgets", {"ops_reflection": "int"})
R.dictrec("WSched", {"budgets": "WBudgets"})
R.dictrec("WCfg", {"scheduler": "WSched"})
R.dictrec("WCfgEmpty", {})

R.contract(
    WR + "_normalize_entry", "C19", verify=False,
    types={"base": "Dict[str, Un[J]]", "owner": "str", "ts_iso": "str", "episode_id": "str", "maybe_vec": "Optional[Un[J]]"},
    returns="EpisodeRec", raises="Exception", modifies=[],
    ensures=[("carries-id-owner-ts", "result['id'] == episode_id and result['owner'] == owner and result['ts'] == ts_iso")],
)

W_GHOST = {"attempts": ("List[int]", "empty"), "successes": ("List[int]", "empty")}
CAP = "cfg_root['scheduler']['budgets']['ops_reflection']"
NENT = "ite(present(old(result)), len(old(old(result).memory_entries)), 0)"
R.contract(
    WR + "write_reflection_entries", "C19",
    types={"ctx": "ReflCtx", "state": "WState", "cfg_root": "WCfg", "result": "OptWResult"},
    returns="WriteReport",
    ghost=W_GHOST,
    ensures=[
        ("written-within-entries-and-ops-cap",
         "0 <= result.ops_written and result.ops_written <= " + NENT + " and "
         "result.ops_written <= ite(" + CAP + " > 0, " + CAP + ", 0)"),
        ("nothing-written-when-cap-nonpositive",
         "implies(" + CAP + " <= 0, result.ops_written == 0 and len(attempts) == 0)"),
        ("nothing-written-without-index",
         "implies(not present(state.memory_index), result.ops_written == 0 and len(attempts) == 0)"),
        ("nothing-written-without-entries",
         "implies(" + NENT + " == 0, result.ops_written == 0 and len(attempts) == 0 and result.ops_attempted == 0)"),
        ("written-counts-exactly-the-successful-adds", "result.ops_written == len(successes)"),
        ("at-most-two-add-calls-per-kept-entry",
         "len(attempts) <= 2 * ite(" + NENT + " < " + CAP + ", " + NENT + ", ite(" + CAP + " > 0, " + CAP + ", 0))"),
        ("attempted-reports-entry-count", "result.ops_attempted == " + NENT),
        ("timestamp-from-turn-clock",
         "implies(not is_none(result.ts_iso) and not is_none(ctx.now_iso), some(result.ts_iso) == some(ctx.now_iso))"),
    ],
    raises="none",          # "never raises"
    # the handler around `_choose_index` is dead for the typed state (plain attribute reads cannot raise); its
    # fail-soft shape is covered by the Engine F clause writer/no-escape:index-select below
    unreachable_ok=["errors.append(f'index_select_error", "return WriteReport(ops_attempted=attempted_total, ops_written=0, "
                    "errors=errors, reason='index_select_error'"],
    loops={0: {"inv": [
        "0 <= written and written <= _i",
        "len(successes) == written",
        "len(attempts) <= 2 * _i",
        "len(entries) <= attempted_total and len(entries) <= ops_cap and ops_cap > 0",
    ]}},
    locals={"errors": "List[str]", "written": "int", "index_kind": "Optional[str]"},
)
R.contract(
    WR + "write_reflection_entries", "C19", name="write_reflection_entries[no budget configured]", callee=False,
    types={"ctx": "ReflCtx", "state": "WState", "cfg_root": "WCfgEmpty", "result": "OptWResult"},
    returns="WriteReport",
    ghost=W_GHOST,
    ensures=[("writer-default-cap-is-zero", "result.ops_written == 0 and len(attempts) == 0")],
    raises="none",
    # with no scheduler.budgets.ops_reflection the writer's cap defaults to 0: everything after the cap test is dead
    unreachable_ok=["if len(entries) > ops_cap", "ts_iso = _now_iso_from_ctx", "try:", "owner = 'agent'", "written = 0",
                    "for i, base in enumerate(entries)",
                    "return WriteReport(ops_attempted=attempted_total, ops_written=written"],
)

# ------------------------------------------------------------------ _reflect_rulebased / _reflect_llm
R.opaque(RF + "_normalize", "norm_text", ["str", "bool"], "str")
R.funtype("EmbedFn", params=["s"], returns="List[float]", raises="Exception")
R.optobj("OptEmbedFn", "EmbedFn")
R.contract(
    RF + "_maybe_embed", "C19", verify=False,      # embedding numerics: ND in DESIGN.md (an arbitrary optional vector)
    types={"summary": "str", "do_embed": "bool", "embedder": "OptEmbedFn"},
    returns="Optional[List[float]]", raises="none", modifies=[],
    ensures=[("no-vector-unless-asked", "implies(not do_embed or summary == '', is_none(result))")],
)
# _owner_and_ts: `ts` is annotated Any (ctx.now_iso / ctx.now / ctx.now_ms / a literal, whichever is truthy first): callers
# see it as an uninterpreted value; the owner component is verified by the second (non-callee) contract.
R.untype("TsAny")
_OWNER = ("owner-is-agent-id-or-unknown", "result[0] == ite(ctx.agent_id != '', ctx.agent_id, 'unknown')")
R.contract(RF + "_owner_and_ts", "C19", verify=False, types={"ctx": "ReflCtx"}, returns="Tuple[str, Un[TsAny]]",
           raises="none", modifies=[], ensures=[_OWNER])
R.contract(RF + "_owner_and_ts", "C19", name="_owner_and_ts[owner]", callee=False, types={"ctx": "ReflCtx"},
           raises="none", ensures=[_OWNER])
R.objtype("ReflPlan", {"reflection": "bool"})
R.objtype("ReflectionBundle", {"ctx": "ReflCtx", "state_view": "None", "plan": "ReflPlan", "utter": "str", "snippets": "List[str]"})
R.objtype("ReflectionResult", {}, cls=("clematis/engine/stages/t3/reflect.py", "ReflectionResult"))
R.dictrec("ReflCfg", {"topk_snippets": "int", "summary_tokens": "int", "embed": "bool"})
R.dictrec("ReflCfgEmpty", {})

ENTRY_CLAUSES = [
    ("at-most-one-entry", "len(result.memory_entries) <= 1"),
    ("no-entry-when-ops-cap-nonpositive", "implies(ops_cap <= 0, len(result.memory_entries) == 0)"),
    ("one-entry-when-budget-allows", "implies(ops_cap > 0, len(result.memory_entries) == 1)"),
    ("entry-text-is-the-clamped-summary",
     "implies(ops_cap > 0, result.memory_entries[0]['text'] == result.summary and "
     " result.memory_entries[0]['kind'] == 'summary' and result.memory_entries[0]['owner'] == ite(bundle.ctx.agent_id != '', bundle.ctx.agent_id, 'unknown'))"),
    ("metrics-report-the-cap", "result.metrics['ops_cap'] == ops_cap"),
]
for _cfg, _nm, _lim in [("ReflCfg", "_reflect_rulebased", "reflection_cfg['summary_tokens']"),
                        ("ReflCfgEmpty", "_reflect_rulebased[default config]", "128")]:
    R.contract(
        RF + "_reflect_rulebased", "C19", name=_nm, callee=(_cfg == "ReflCfg"),
        types={"bundle": "ReflectionBundle", "reflection_cfg": _cfg, "ops_cap": "int", "embedder": "OptEmbedFn"},
        ensures=[("summary-within-token-limit", "ws_tokens(result.summary) <= max(%s, 0)" % _lim)] + ENTRY_CLAUSES,
        raises="none",
        modifies=[],
    )

# llm backend: fixture adapter assumed (file I/O); cfg_root carries t3.llm.fixtures
R.objtype("LLMResult", {"text": "str", "tokens": "int", "truncated": "bool"})
R.objtype("FixtureLLMAdapter", {}, cls=("clematis/adapters/llm.py", "FixtureLLMAdapter"))
R.contract("clematis/adapters/llm.py:FixtureLLMAdapter.__init__", "C19", verify=False,
           types={"self": "FixtureLLMAdapter", "path": "str"}, raises="LLMAdapterError", modifies=[])
R.contract("clematis/adapters/llm.py:FixtureLLMAdapter.generate", "C19", verify=False,
           types={"self": "FixtureLLMAdapter", "prompt": "str", "max_tokens": "int", "temperature": "float"},
           returns="LLMResult", raises="LLMAdapterError", modifies=[])
R.dictrec("FixturesCfg", {"enabled": "bool", "path": "str"})
R.dictrec("LLMCfg", {"fixtures": "FixturesCfg"})
R.dictrec("T3Cfg", {"llm": "LLMCfg"})
R.dictrec("LLMCfgRoot", {"t3": "T3Cfg"})
R.contract(
    RF + "_reflect_llm", "C19",
    types={"bundle": "ReflectionBundle", "cfg_root": "LLMCfgRoot", "reflection_cfg": "ReflCfg", "ops_cap": "int",
           "embedder": "OptEmbedFn"},
    ensures=[("summary-within-token-limit", "ws_tokens(result.summary) <= max(reflection_cfg['summary_tokens'], 0)"),
             ("only-with-enabled-fixtures", "cfg_root['t3']['llm']['fixtures']['enabled']"),
             ("summary-not-empty-implies-positive-limit", "implies(result.summary != '', reflection_cfg['summary_tokens'] > 0)")]
    + ENTRY_CLAUSES,
    raises=None,        # failures (missing fixture, bad config, encoding) propagate to the fail-soft wrapper (f_runturn.py)
    modifies=[],
)

for _nm, _pat in [("index-select", {"call": "_choose_index"}), ("index-add", {"call": "add", "recv": "index"}),
                  ("episode-id", {"call": "_episode_id"}), ("normalize-entry", {"call": "_normalize_entry"})]:
    R.fclause("C19", "writer/no-escape:%s" % _nm, "noescape", WR + "write_reflection_entries", sites=_pat)
