"""C10 -- agent batch driver commits exactly like a sequential loop (per-function claims).

(LogStager itself is under contract in the C16 file; here its interface contract is *assumed* for the
drain-flush-retry regions of the driver.)
"""
import ast

from pyvc.verifier import REG as R

OP = "clematis/engine/orchestrator/parallel.py:"

# ------------------------------------------------------------------ _select_independent_batch
# callers see _resolve_graphs_for_agent as a deterministic function of (state, agent id): gset_of
R.untype("OState")
R.opaque(OP + "_resolve_graphs_for_agent", "gset_of", ["Un[OState]", "str"], "Set[str]")

OVERLAP = "exists((g, 'str'), g in gset_of(state, %s), g in gset_of(state, %s))"
LIMIT = "ite(max_workers > 1, max_workers, 1)"

R.contract(
    OP + "_select_independent_batch", "C10",
    types={"agent_ids": "List[str]", "state": "Un[OState]", "max_workers": "int"},
    returns="List[str]",
    # ghost outputs (witnesses): pidx[j] = position in agent_ids of the j-th picked agent; for every examined
    # position i: ppos[i] = its position in picked or -1; if skipped, blk[i] = position in picked of an agent
    # picked earlier whose graph set shares the graph bg[i] with agent_ids[i]
    ghost={"pidx": ("List[int]", "empty"), "ppos": ("List[int]", "empty"), "blk": ("List[int]", "empty"),
           "bg": ("List[str]", "empty"), "owner": ("Dict[str, int]", "empty")},
    asserts={
        "gset": ["ghost:bg.append(choose('str', lambda g: g in used and g in gset))",
                 "ghost:blk.append(owner.get(bg[len(bg) - 1], 0))",
                 "ghost:ppos.append(-1)"],
        "call:picked.append": ["ghost:pidx.append(_i)", "ghost:ppos[len(ppos) - 1] = len(picked) - 1"],
        "call:used.update": ["ghost:map_set_all(owner, gset, len(picked) - 1)"],
    },
    ensures=[
        ("picked-is-a-subsequence-of-agent_ids",
         "len(pidx) == len(result) and forall(j, 0 <= j < len(result), 0 <= pidx[j] and pidx[j] < len(agent_ids) and "
         "result[j] == agent_ids[pidx[j]]) and forall2(a, b, 0 <= a and a < b and b < len(result), pidx[a] < pidx[b])"),
        ("at-most-max(1,max_workers)", "len(result) <= " + LIMIT),
        ("graph-sets-pairwise-disjoint",
         "forall2(a, b, 0 <= a and a < b and b < len(result), not " + OVERLAP % ("result[a]", "result[b]") + ")"),
        # greedy-maximal: an agent that was not picked either overlaps an agent picked before it, or the batch
        # was already full when its turn came
        ("greedy-maximal",
         "len(ppos) <= len(agent_ids) and len(blk) == len(ppos) and len(bg) == len(ppos) and "
         "forall(i, 0 <= i < len(agent_ids), "
         " ite(i < len(ppos) and ppos[i] >= 0, ppos[i] < len(result) and pidx[ppos[i]] == i, "                  # picked
         " ite(i < len(ppos), 0 <= blk[i] and blk[i] < len(result) and pidx[blk[i]] < i and "                   # blocked
         "                    bg[i] in gset_of(state, agent_ids[i]) and bg[i] in gset_of(state, result[blk[i]]), "
         "     len(result) == " + LIMIT + " and pidx[len(result) - 1] < i)))"),                                  # batch full
        ("agent_ids-untouched", "seq_eq(agent_ids, old(agent_ids))"),
    ],
    raises="none",
    loops={0: {"inv": [
        "limit == " + LIMIT + " and len(picked) <= limit and len(pidx) == len(picked)",
        "forall(j, 0 <= j < len(picked), 0 <= pidx[j] and pidx[j] < _i and picked[j] == agent_ids[pidx[j]])",
        "forall2(a, b, 0 <= a and a < b and b < len(picked), pidx[a] < pidx[b])",
        # used == union of the graph sets of the picked agents (two inclusions)
        "forall(j, 0 <= j < len(picked), forall((g, 'str'), g in gset_of(state, picked[j]), g in used))",
        "forall((g, 'str'), g in used, g in owner and 0 <= owner[g] and owner[g] < len(picked) and "
        " g in gset_of(state, picked[owner[g]]))",
        "forall2(a, b, 0 <= a and a < b and b < len(picked), not " + OVERLAP % ("picked[a]", "picked[b]") + ")",
        "len(ppos) == _i and len(blk) == _i and len(bg) == _i",
        "forall(i, 0 <= i < _i, ite(ppos[i] >= 0, ppos[i] < len(picked) and pidx[ppos[i]] == i, "
        " 0 <= blk[i] and blk[i] < len(picked) and pidx[blk[i]] < i and bg[i] in gset_of(state, agent_ids[i]) and "
        " bg[i] in gset_of(state, picked[blk[i]])))",
    ]}},
    locals={"picked": "List[str]", "used": "Set[str]"},
)
