"""C10 -- agent batch driver commits exactly like a sequential loop (per-function claims).

(LogStager itself is under contract in the C16 file; here its interface contract is *assumed* for the
drain-flush-retry regions of the driver.)
"""
import ast

from pyvc.verifier import REG as R

OP = "clematis/engine/orchestrator/parallel.py:"

# ------------------------------------------------------------------ _select_independent_batch
# callers see _resolve_graphs_for_agent as a deterministic function of (state, agent id): gset_of
R.untype("OState")
R.opaque(OP + "_resolve_graphs_for_agent", "gset_of", ["Un[OState]", "str"], "Set[str]")

OVERLAP = "exists((g, 'str'), g in gset_of(state, %s), g in gset_of(state, %s))"
LIMIT = "ite(max_workers > 1, max_workers, 1)"

R.contract(
    OP + "_select_independent_batch", "C10",
    types={"agent_ids": "List[str]", "state": "Un[OState]", "max_workers": "int"},
    returns="List[str]",
    # ghost outputs (witnesses): pidx[j] = position in agent_ids of the j-th picked agent; for every examined
    # position i: ppos[i] = its position in picked or -1; if skipped, blk[i] = position in picked of an agent
    # picked earlier whose graph set shares the graph bg[i] with agent_ids[i]
    ghost={"pidx": ("List[int]", "empty"), "ppos": ("List[int]", "empty"), "blk": ("List[int]", "empty"),
           "bg": ("List[str]", "empty"), "owner": ("Dict[str, int]", "empty")},
    asserts={
        "gset": ["ghost:bg.append(choose('str', lambda g: g in used and g in gset))",
                 "ghost:blk.append(owner.get(bg[len(bg) - 1], 0))",
                 "ghost:ppos.append(-1)"],
        "call:picked.append": ["ghost:pidx.append(_i)", "ghost:ppos[len(ppos) - 1] = len(picked) - 1"],
        "call:used.update": ["ghost:map_set_all(owner, gset, len(picked) - 1)"],
    },
    ensures=[
        ("picked-is-a-subsequence-of-agent_ids",
         "len(pidx) == len(result) and forall(j, 0 <= j < len(result), 0 <= pidx[j] and pidx[j] < len(agent_ids) and "
         "result[j] == agent_ids[pidx[j]]) and forall2(a, b, 0 <= a and a < b and b < len(result), pidx[a] < pidx[b])"),
        ("at-most-max(1,max_workers)", "len(result) <= " + LIMIT),
        ("graph-sets-pairwise-disjoint",
         "forall2(a, b, 0 <= a and a < b and b < len(result), not " + OVERLAP % ("result[a]", "result[b]") + ")"),
        # greedy-maximal: an agent that was not picked either overlaps an agent picked before it, or the batch
        # was already full when its turn came
        ("greedy-maximal",
         "len(ppos) <= len(agent_ids) and len(blk) == len(ppos) and len(bg) == len(ppos) and "
         "forall(i, 0 <= i < len(agent_ids), "
         " ite(i < len(ppos) and ppos[i] >= 0, ppos[i] < len(result) and pidx[ppos[i]] == i, "                  # picked
         " ite(i < len(ppos), 0 <= blk[i] and blk[i] < len(result) and pidx[blk[i]] < i and "                   # blocked
         "                    bg[i] in gset_of(state, agent_ids[i]) and bg[i] in gset_of(state, result[blk[i]]), "
         "     len(result) == " + LIMIT + " and pidx[len(result) - 1] < i)))"),                                  # batch full
        ("agent_ids-untouched", "seq_eq(agent_ids, old(agent_ids))"),
    ],
    raises="none",
    loops={0: {"inv": [
        "limit == " + LIMIT + " and len(picked) <= limit and len(pidx) == len(picked)",
        "forall(j, 0 <= j < len(picked), 0 <= pidx[j] and pidx[j] < _i and picked[j] == agent_ids[pidx[j]])",
        "forall2(a, b, 0 <= a and a < b and b < len(picked), pidx[a] < pidx[b])",
        # used == union of the graph sets of the picked agents (two inclusions)
        "forall(j, 0 <= j < len(picked), forall((g, 'str'), g in gset_of(state, picked[j]), g in used))",
        "forall((g, 'str'), g in used, g in owner and 0 <= owner[g] and owner[g] < len(picked) and "
        " g in gset_of(state, picked[owner[g]]))",
        "forall2(a, b, 0 <= a and a < b and b < len(picked), not " + OVERLAP % ("picked[a]", "picked[b]") + ")",
        "len(ppos) == _i and len(blk) == _i and len(bg) == _i",
        "forall(i, 0 <= i < _i, ite(ppos[i] >= 0, ppos[i] < len(picked) and pidx[ppos[i]] == i, "
        " 0 <= blk[i] and blk[i] < len(picked) and pidx[blk[i]] < i and bg[i] in gset_of(state, agent_ids[i]) and "
        " bg[i] in gset_of(state, picked[blk[i]])))",
    ]}},
    locals={"picked": "List[str]", "used": "Set[str]"},
)


# ------------------------------------------------------------------ _resolve_graphs_for_agent never raises
# (1) for *all* inputs (any Python objects): a structural obligation -- the whole body is one try statement whose
#     `except Exception` handler neither raises nor returns, followed by a total `return set()`; so no Exception can
#     escape (BaseException subclasses such as KeyboardInterrupt are outside the claim).
# (2) for the documented state shapes: symbolic execution with raises="none" plus the value it resolves to.

def _resolve_structure():
    import z3
    from pyvc import frontend
    _, _, fn = frontend.find_function(OP + "_resolve_graphs_for_agent")
    body = [s for s in fn.body if not (isinstance(s, ast.Expr) and isinstance(s.value, ast.Constant))]
    is_try = len(body) == 2 and isinstance(body[0], ast.Try)
    t = body[0] if is_try else None

    def catch_all(h):
        return h.type is None or (isinstance(h.type, ast.Name) and h.type.id in ("Exception", "BaseException"))

    catches_all = bool(t) and not t.finalbody and not t.orelse and any(catch_all(h) for h in t.handlers)
    inert = False
    if catches_all:
        upto = [i for i, h in enumerate(t.handlers) if catch_all(h)][0]
        # handlers up to and including the catch-all one must be inert: only `pass` / constant expressions
        inert = all(all(isinstance(s, ast.Pass) or (isinstance(s, ast.Expr) and isinstance(s.value, ast.Constant))
                        for s in h.body) for h in t.handlers[:upto + 1])
    last = body[-1] if body else None
    total_return = isinstance(last, ast.Return) and isinstance(last.value, ast.Call) and \
        isinstance(last.value.func, ast.Name) and last.value.func.id == "set" and not last.value.args \
        and not last.value.keywords
    return [("body-is-try-then-return", [], z3.BoolVal(bool(is_try))),
            ("try-has-except-Exception", [], z3.BoolVal(bool(catches_all))),
            ("handlers-are-inert", [], z3.BoolVal(bool(inert))),
            ("fallback-return-set()-is-total", [], z3.BoolVal(bool(total_return)))]


R.lemma("_resolve_graphs_for_agent/never-raises-structure", "C10", _resolve_structure)

GL = "List[str]"
R.dictrec("OStateD", {"agents": "Dict[str, Dict[str, " + GL + "]]", "graphs_by_agent": "Dict[str, " + GL + "]"})
R.dictrec("OStateE", {})
HAS_A = "(agent_id in state['agents'] and len(state['agents'][agent_id]) > 0 and 'graphs' in state['agents'][agent_id])"
IN_LIST = "exists(i, 0 <= i < len(%s), %s[i] == g)"
R.contract(
    OP + "_resolve_graphs_for_agent", "C10", name="_resolve_graphs_for_agent[dict state]", callee=False,
    types={"state": "OStateD", "agent_id": "str"},
    returns="Set[str]",
    ensures=[
        ("agents-entry-wins",
         "implies(" + HAS_A + ", forall((g, 'str'), True, (g in result) == " +
         IN_LIST % ("state['agents'][agent_id]['graphs']", "state['agents'][agent_id]['graphs']") + "))"),
        ("else-graphs_by_agent",
         "implies(not " + HAS_A + " and agent_id in state['graphs_by_agent'], forall((g, 'str'), True, (g in result) == " +
         IN_LIST % ("state['graphs_by_agent'][agent_id]", "state['graphs_by_agent'][agent_id]") + "))"),
        ("else-empty", "implies(not " + HAS_A + " and not (agent_id in state['graphs_by_agent']), len(result) == 0)"),
    ],
    raises="none",
    # with this state shape an agent entry is a dict (no .graphs attribute) and nothing in the try block raises
    unreachable_ok=["g = getattr(a, 'graphs')", "pass"],
)
R.contract(
    OP + "_resolve_graphs_for_agent", "C10", name="_resolve_graphs_for_agent[empty dict state]", callee=False,
    # no 'agents' / 'graphs_by_agent' to look at with this state shape; nothing raises
    unreachable_ok=["if isinstance(agents, dict)", "if isinstance(gba, dict)", "pass"],
    types={"state": "OStateE", "agent_id": "str"},
    returns="Set[str]",
    ensures=[("empty", "len(result) == 0")],
    raises="none",
)
R.contract(
    OP + "_resolve_graphs_for_agent", "C10", name="_resolve_graphs_for_agent[state None]", callee=False,
    # no 'agents' / 'graphs_by_agent' to look at with this state shape; nothing raises
    unreachable_ok=["if isinstance(agents, dict)", "if isinstance(gba, dict)", "pass"],
    types={"state": "None", "agent_id": "str"},
    returns="Set[str]",
    ensures=[("empty", "len(result) == 0")],
    raises="none",
)


# ------------------------------------------------------------------ _sort_turn_buffers: total order (turn_id, slice_idx)
# a _TurnBuffer is a TypedDict; only its keys turn_id / slice_idx are read here, so it is modelled as a dict-like
# record value over those two keys (type invariant: both present, slice_idx an int -- `int(None)` in the except arm of
# _key would escape otherwise).  turn_id: int | str (documented): one record type per alternative.
R.record("TurnBufI", {"turn_id": "int", "slice_idx": "int", "agent_id": "str"}, dictlike=True)
R.record("TurnBufS", {"turn_id": "str", "slice_idx": "int", "agent_id": "str"}, dictlike=True)
KEYFN = OP + "_sort_turn_buffers.<locals>._key"
R.contract(
    KEYFN, "C10", name="_sort_turn_buffers._key[int turn_id]",
    types={"buf": "TurnBufI"},
    ensures=[], pure_result="(0, buf['turn_id'], buf['slice_idx'])",
    raises="none",
    unreachable_ok=["return (1, str(tid)"],     # int(tid) cannot fail for an int turn id
)
R.contract(
    KEYFN, "C10", name="_sort_turn_buffers._key[str turn_id]", callee=False,
    types={"buf": "TurnBufS"},
    ensures=[
        ("numeric-strings-rank-as-ints",
         "implies(int_parses(buf['turn_id']), result[0] == 0 and result[1] == int_value(buf['turn_id']) and "
         "result[2] == buf['slice_idx'])"),
        ("other-strings-rank-after-all-ints-by-text",
         "implies(not int_parses(buf['turn_id']), result[0] == 1 and result[1] == buf['turn_id'] and "
         "result[2] == buf['slice_idx'])"),
    ],
    raises="none",
)
R.contract(
    OP + "_sort_turn_buffers", "C10", name="_sort_turn_buffers[int turn_id]", callee=False,
    types={"buffers": "List[TurnBufI]"},
    returns="List[TurnBufI]",
    ensures=[
        # a permutation (p strictly increasing in a strict order => injective), ordered by (turn_id, slice_idx),
        # ties in input order (stable)
        ("stable-permutation-ordered-by-(turn_id,slice_idx)",
         "len(result) == len(buffers) and exists_fn(p, "
         " forall(j, 0 <= j < len(result), 0 <= p(j) and p(j) < len(buffers) and result[j] == buffers[p(j)]) and "
         " forall2(a, b, 0 <= a and a < b and b < len(result), "
         "   (buffers[p(a)]['turn_id'], buffers[p(a)]['slice_idx'], p(a)) < (buffers[p(b)]['turn_id'], buffers[p(b)]['slice_idx'], p(b))))"),
        ("input-untouched", "seq_eq(buffers, old(buffers))"),
    ],
    raises="none",
)


def _key_order_lemma():
    """the keys produced by _key -- (0, int, int) or (1, str, int) -- are totally ordered by Python's tuple
    comparison, and comparing two of them never compares an int with a str (first components decide mixed cases)"""
    import z3
    Key = z3.Datatype("SortKey")
    Key.declare("mk", ("tag", z3.IntSort()), ("i", z3.IntSort()), ("s", z3.StringSort()), ("c", z3.IntSort()))
    Key = Key.create()
    a, b, c = z3.Consts("ka kb kc", Key)
    wf = lambda k: z3.Or(Key.tag(k) == 0, Key.tag(k) == 1)

    def second_lt(x, y):      # comparison of the second components, only meaningful when the tags agree
        return z3.If(Key.tag(x) == 0, Key.i(x) < Key.i(y), Key.s(x) < Key.s(y))

    def second_eq(x, y):
        return z3.If(Key.tag(x) == 0, Key.i(x) == Key.i(y), Key.s(x) == Key.s(y))

    def lt(x, y):
        return z3.Or(Key.tag(x) < Key.tag(y),
                     z3.And(Key.tag(x) == Key.tag(y),
                            z3.Or(second_lt(x, y), z3.And(second_eq(x, y), Key.c(x) < Key.c(y)))))

    def same(x, y):
        return z3.And(Key.tag(x) == Key.tag(y), second_eq(x, y), Key.c(x) == Key.c(y))
    # python evaluates x[1] < y[1] only when x[0] == y[0]; then both are ints (tag 0) or both strs (tag 1)
    mixed = z3.And(Key.tag(a) == Key.tag(b), z3.Or(z3.And(Key.tag(a) == 0, Key.tag(b) == 1), z3.And(Key.tag(a) == 1, Key.tag(b) == 0)))
    return [("never-compares-int-with-str", [wf(a), wf(b)], z3.Not(mixed)),
            ("total", [wf(a), wf(b)], z3.Or(lt(a, b), same(a, b), lt(b, a))),
            ("irreflexive", [wf(a)], z3.Not(lt(a, a))),
            ("asymmetric", [wf(a), wf(b), lt(a, b)], z3.Not(lt(b, a))),
            ("transitive", [wf(a), wf(b), wf(c), lt(a, b), lt(b, c)], lt(a, c))]


R.lemma("_sort_turn_buffers/key-order-is-total", "C10", _key_order_lemma)


# ------------------------------------------------------------------ drain-flush-retry regions of _run_agents_parallel_batch
# The driver itself (dynamic lookups through sys.modules, the whole stage pipeline behind run_turn) is not verified;
# its two back-pressure regions
#       try: stager.stage(fp, key, payload)
#       except RuntimeError as exc:
#           if str(exc) == "LOG_STAGING_BACKPRESSURE":
#               for rec in stager.drain_sorted(): _append_unbuffered(rec.file_path, rec.payload)
#               stager.stage(fp, key, payload)
#           else: raise
# are: the real statement nodes are verified as a region whose free variables obey the *interface contract* of
# LogStager (DESIGN C10/C16: stage raises LOG_STAGING_BACKPRESSURE iff _bytes + est > byte_limit and then changes
# nothing; drain_sorted returns the buffer in its deterministic order and empties it) and of _append_unbuffered
# (appends one line; I/O errors out of scope).  Ghost model of the stager: buf (staged (path, payload) in arrival
# order), sbytes, limit; written = lines flushed to disk, in order.

def _stage_retry_regions(fn):
    out = []
    for n in ast.walk(fn):
        if isinstance(n, ast.Try) and n.body and isinstance(n.body[0], ast.Expr) and isinstance(n.body[0].value, ast.Call):
            f = n.body[0].value.func
            if isinstance(f, ast.Attribute) and f.attr == "stage" and isinstance(f.value, ast.Name) and f.value.id == "stager":
                out.append(n)
    return sorted(out, key=lambda n: n.lineno)


R.region("stage-retry-0", lambda fn: _stage_retry_regions(fn)[0:1])    # per captured log line
R.region("stage-retry-1", lambda fn: _stage_retry_regions(fn)[1:2])    # the apply.jsonl record

R.untype("LogKeyV")
R.untype("Payload")
PAIR = "Tuple[str, Un[Payload]]"
R.record("SRec", {"file_path": "str", "payload": "Un[Payload]"})
R.uf("est_of", ["str", "Un[Payload]"], "int")                    # LogStager's size estimate of one record
R.uf("drain_order", ["List[" + PAIR + "]"], "List[" + PAIR + "]")   # drain_sorted's deterministic order of a buffer
EST = "est_of(file_path, payload)"
R.funtype("StageFn", params=["file_path", "key", "payload"],
          # repaired LogStager (fix: back-pressure only while something is buffered)
          raises={"RuntimeError": "len(buf) > 0 and sbytes + " + EST + " > limit"},
          exc_info=("'RuntimeError'", "'LOG_STAGING_BACKPRESSURE'"),
          ensures=["len(buf) == 0 or sbytes + " + EST + " <= limit"],
          effects=["buf.append((file_path, payload))", "sbytes = sbytes + " + EST])
R.funtype("DrainFn", params=[], returns="List[SRec]",
          ensures=["len(result) == len(buf)",
                   "forall(i, 0 <= i < len(result), result[i].file_path == drain_order(buf)[i][0] and "
                   "result[i].payload == drain_order(buf)[i][1])"],
          effects=["buf.clear()", "sbytes = 0"])
R.funtype("AppendFn", params=["path", "payload"], effects_before=["written.append((path, payload))"])
R.objtype("StagerIface", {"stage": "StageFn", "drain_sorted": "DrainFn"})

RB = OP + "_run_agents_parallel_batch#"
REGION_GHOST = {"buf": ("List[" + PAIR + "]", "any"), "sbytes": ("int", "any"), "limit": ("int", "any"),
                "written": ("List[" + PAIR + "]", "empty")}
# LogStager invariant on entry: 0 <= _bytes <= byte_limit; the property quantifies over byte limits from 1 upward
REGION_REQ = [("stager-invariant", "0 <= sbytes and limit >= 1 and (sbytes <= limit or len(buf) == 1) and implies(len(buf) == 0, sbytes == 0)")]


def _region_contract(tag, fp, name, extra_req, types):
    est = "est_of(%s, payload)" % fp
    R.contract(
        RB + tag, "C10", name=name, callee=False,
        types=dict({"stager": "StagerIface", "key": "Un[LogKeyV]", "payload": "Un[Payload]",
                    "_append_unbuffered": "AppendFn"}, **types),
        ghost=REGION_GHOST,
        # est = sum(len(str(k)) + len(str(v)) ...) + 2 in LogStager.stage: at least 2 for every record
        requires=REGION_REQ + [("estimate-at-least-2", est + " >= 2")] + extra_req,
        ensures=[
            ("record-staged-last", "len(buf) >= 1 and buf[len(buf) - 1][0] == " + fp + " and buf[len(buf) - 1][1] == payload"),
            ("fits-then-nothing-flushed",
             "implies(old(sbytes) + " + est + " <= limit or old(len(buf)) == 0, len(written) == 0 and len(buf) == old(len(buf)) + 1 and "
             "forall(i, 0 <= i < old(len(buf)), buf[i] == old(buf)[i]))"),
            ("backpressure-then-whole-buffer-flushed-in-drain-order",
             "implies(old(sbytes) + " + est + " > limit and old(len(buf)) > 0, len(written) == old(len(buf)) and len(buf) == 1 and "
             "forall(i, 0 <= i < len(written), written[i] == drain_order(old(buf))[i]))"),
            ("nothing-lost-nothing-duplicated", "len(written) + len(buf) == old(len(buf)) + 1"),
            ("stager-invariant-kept", "0 <= sbytes and (sbytes <= limit or len(buf) == 1)"),
        ],
        # flush order and *success* must not depend on the byte limit: the region may not raise
        raises="none",
        loops={0: {"inv": [
            "len(written) == _i and len(buf) == 0 and sbytes == 0",
            "forall(j, 0 <= j < _i, written[j][0] == _iter[j].file_path and written[j][1] == _iter[j].payload)",
        ]}},
        # stage() raises nothing but the back-pressure RuntimeError under the interface contract
        unreachable_ok=["raise"],
    )


_region_contract("stage-retry-0", "file_path", "stage-retry[log line, any byte limit >= 1]", [], {"file_path": "str"})
_region_contract("stage-retry-0", "file_path", "stage-retry[log line, every single record fits the limit]",
                 [("single-record-fits", "est_of(file_path, payload) <= limit")], {"file_path": "str"})
_region_contract("stage-retry-1", "'apply.jsonl'", "stage-retry[apply.jsonl, any byte limit >= 1]", [], {})
_region_contract("stage-retry-1", "'apply.jsonl'", "stage-retry[apply.jsonl, every single record fits the limit]",
                 [("single-record-fits", "est_of('apply.jsonl', payload) <= limit")], {})
