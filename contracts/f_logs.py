"""Engine F ownership clauses of the log capture path (C16 lossless/ordered capture, C10 captured logs of a compute phase)."""
import ast
from pyvc.verifier import REG as R
from pyvc.effects import result

_COPY_CALLS = {"dict", "copy.deepcopy", "copy.copy", "deepcopy", "json.loads"}


def _is_owned_copy(e):
    """syntactic freshness: dict(x) / copy.deepcopy(x) / x.copy() / {**x} / a dict display or comprehension"""
    if isinstance(e, (ast.Dict, ast.DictComp)):
        return True
    if isinstance(e, ast.Call):
        f = ast.unparse(e.func)
        if f in _COPY_CALLS:
            return True
        if isinstance(e.func, ast.Attribute) and e.func.attr == "copy" and not e.args:
            return True
    return False


def captured_record_is_owned(cl, mod, cls, func):
    """append_jsonl hands an active LogMux its *own* copy of the record (the capture is flushed later, at commit time: a
    reference to the caller's dict would make the flushed line show the dict's state at flush time, not at append time;
    normalize_for_identity returns its argument unchanged for non-identity streams / outside CI, so its result is not
    a copy).  Every `<mux>.write(stream, rec)` call: `rec` is a syntactically fresh copy."""
    calls = [n for n in ast.walk(func) if isinstance(n, ast.Call) and isinstance(n.func, ast.Attribute) and n.func.attr == "write"
             and isinstance(n.func.value, ast.Name) and n.func.value.id == "mux"]
    if not calls:
        return [result(cl["name"], "error", "anchor lost: no mux.write(...) call in %s" % cl["key"])]
    out = []
    for i, c in enumerate(calls):
        rec = c.args[1] if len(c.args) >= 2 else None
        ok = rec is not None and _is_owned_copy(rec)
        # a local bound exactly once to a fresh copy is fine too
        if not ok and isinstance(rec, ast.Name):
            binds = [n for n in ast.walk(func) if isinstance(n, ast.Assign) and len(n.targets) == 1
                     and isinstance(n.targets[0], ast.Name) and n.targets[0].id == rec.id]
            params = {a.arg for a in func.args.args + func.args.kwonlyargs}
            ok = rec.id not in params and len(binds) == 1 and _is_owned_copy(binds[0].value)
        out.append(result("%s#%d" % (cl["name"], i), "proved" if ok else "failed",
                          "" if ok else "the record captured by the LogMux at line %d is `%s`: not an owned copy of the caller's record"
                          % (c.lineno, ast.unparse(rec) if rec is not None else None),
                          where="mux.write(..., %s)" % (ast.unparse(rec) if rec is not None else None)))
    return out


R.fclause(["C16", "C10"], "capture/record-is-owned-copy", "custom", "clematis/io/log.py:append_jsonl", fn=captured_record_is_owned)
# the capture-aware entry point of logmux.py has the same obligation (first run on the unchanged tree: failed, the
# caller's dict was captured by reference -- repaired in /repo, see known_findings.json `fixed`)
R.fclause(["C16", "C10"], "capture/write_or_buffer-record-is-owned-copy", "custom", "clematis/engine/util/logmux.py:write_or_buffer",
          fn=captured_record_is_owned)
