from pyvc.verifier import REG as R

R.funtype("NowMs", params=[], returns="int", ensures=["result == clock"])
R.objtype("SchedCtx", {"now_ms": "NowMs"})
R.dictrec("SchedState", {"queue": "List[str]", "last_ran_ms": "Dict[str, int]", "consec_turns": "Dict[str, int]"})
SCHED = "clematis/engine/scheduler.py:"

PURE = ("seq_eq(sched['queue'], old(sched['queue'])) and seq_eq(sched['last_ran_ms'], old(sched['last_ran_ms'])) "
        "and seq_eq(sched['consec_turns'], old(sched['consec_turns'])) and seq_eq(fairness_cfg, old(fairness_cfg))")
ANY_ELIG = "exists(e, 0 <= e < len(sched['queue']), is_elig(sched, mct_of(fairness_cfg), sched['queue'][e]))"

R.contract(
    SCHED + "next_turn", "C17",
    types={"ctx": "SchedCtx", "sched": "SchedState", "policy": "str", "fairness_cfg": "Dict[str, int]"},
    ghost={"clock": ("int", "any")},
    # type invariant of inputs: agent ids are non-empty strings (with an agent named "" the fair-queue branch
    # `best_agent or eligible[0]` falls back to eligible[0]; observed while proving, recorded in DESIGN.md)
    requires=[("agent-ids-nonempty", "forall(i, 0 <= i < len(sched['queue']), len(sched['queue'][i]) > 0)")],
    ensures=[
        ("pure", PURE),
        ("empty-queue", "implies(len(sched['queue']) == 0, result[0] == '')"),
        ("budgets-empty", "len(result[1]) == 0"),
        ("picks-queued-eligible",
         "implies(" + ANY_ELIG + ", result[0] in sched['queue'] and is_elig(sched, mct_of(fairness_cfg), result[0]) "
         "and result[2] != 'RESET_CONSEC')"),
        ("round-robin-first-eligible",
         "implies(policy != 'fair_queue' and " + ANY_ELIG + ", result[2] == 'ROUND_ROBIN' and "
         "exists(p, 0 <= p < len(sched['queue']), sched['queue'][p] == result[0] and "
         "  forall(j, 0 <= j < p, not is_elig(sched, mct_of(fairness_cfg), sched['queue'][j]))))"),
        ("fair-queue-max-tier-then-lex",
         "implies(policy == 'fair_queue' and " + ANY_ELIG + ", result[2] == 'AGING_BOOST' and "
         "forall(i, 0 <= i < len(sched['queue']), implies(is_elig(sched, mct_of(fairness_cfg), sched['queue'][i]), "
         "  tier_of(sched, clock, aging_of(fairness_cfg), sched['queue'][i]) < tier_of(sched, clock, aging_of(fairness_cfg), result[0]) or "
         "  (tier_of(sched, clock, aging_of(fairness_cfg), sched['queue'][i]) == tier_of(sched, clock, aging_of(fairness_cfg), result[0]) "
         "   and result[0] <= sched['queue'][i]))))"),
        ("all-saturated-reset-lexmin",
         "implies(len(sched['queue']) > 0 and not " + ANY_ELIG + ", result[2] == 'RESET_CONSEC' and result[0] in sched['queue'] and "
         "forall(i, 0 <= i < len(sched['queue']), result[0] <= sched['queue'][i]))"),
    ],
    raises="none",
    loops={0: {"inv": [
        "best_tier >= -1",
        "implies(_i == 0, is_none(best_agent) and best_tier == -1)",
        "implies(_i > 0, not is_none(best_agent) and best_tier >= 0 and "
        "  exists(w, 0 <= w < _i, eligible[w] == some(best_agent)) and "
        "  tier_of(sched, now, aging_ms, some(best_agent)) == best_tier and "
        "  forall(j, 0 <= j < _i, tier_of(sched, now, aging_ms, eligible[j]) < best_tier or "
        "     (tier_of(sched, now, aging_ms, eligible[j]) == best_tier and some(best_agent) <= eligible[j])))",
    ]}},
    locals={"best_agent": "Optional[str]", "best_tier": "int", "last": "int", "idle": "int", "tier": "int"},
)

R.contract(
    SCHED + "on_yield", "C17",
    types={"ctx": "SchedCtx", "sched": "SchedState", "agent_id": "str", "consumed": "Dict[str, int]", "reason": "str",
           "fairness_cfg": "Dict[str, int]", "reset": "bool"},
    ghost={"clock": ("int", "any")},
    ensures=[
        ("queue-untouched", "seq_eq(sched['queue'], old(sched['queue']))"),
        ("last-ran-updated",
         "forall((k, 'str'), True, (k in sched['last_ran_ms']) == old(k in sched['last_ran_ms']) and "
         " implies(k in sched['last_ran_ms'], sched['last_ran_ms'][k] == ite(k == agent_id, clock, old(sched['last_ran_ms'])[k])))"),
        ("consec-domain-unchanged", "forall((k, 'str'), True, (k in sched['consec_turns']) == old(k in sched['consec_turns']))"),
        ("reset-zeroes-all", "implies(reset, forall((k, 'str'), k in sched['consec_turns'], sched['consec_turns'][k] == 0))"),
        ("increment-only-agent",
         "implies(not reset, forall((k, 'str'), k in sched['consec_turns'], "
         " sched['consec_turns'][k] == old(sched['consec_turns'])[k] + ite(k == agent_id, 1, 0)))"),
    ],
    raises="none",
    loops={0: {"inv": [
        "forall((k, 'str'), True, (k in sched['consec_turns']) == pre_loop(k in sched['consec_turns']))",
        "forall((k, 'str'), k in _done, sched['consec_turns'][k] == 0)",
        "forall((k, 'str'), k in sched['consec_turns'] and not (k in _done), sched['consec_turns'][k] == pre_loop(sched['consec_turns'])[k])",
        "len(sched['consec_turns']) == len(pre_loop(sched['consec_turns']))",
    ]}},
)

R.contract(
    SCHED + "init_scheduler_state", "C17",
    types={"agent_ids": "List[str]", "now_ms": "int"},
    ensures=[
        ("queue-sorted", "forall(i, 0 <= i < len(result['queue']), forall(j, i < j < len(result['queue']), result['queue'][i] <= result['queue'][j]))"),
        ("queue-same-agents", "len(result['queue']) == len(agent_ids) and "
                              "forall(i, 0 <= i < len(agent_ids), agent_ids[i] in result['queue']) and "
                              "forall(i, 0 <= i < len(result['queue']), result['queue'][i] in agent_ids)"),
        ("counters-zero", "forall(i, 0 <= i < len(agent_ids), agent_ids[i] in result['consec_turns'] and result['consec_turns'][agent_ids[i]] == 0)"),
        ("clock-initialised", "forall(i, 0 <= i < len(agent_ids), agent_ids[i] in result['last_ran_ms'] and result['last_ran_ms'][agent_ids[i]] == now_ms)"),
        ("input-untouched", "seq_eq(agent_ids, old(agent_ids))"),
    ],
    raises="none",
)

ORCH = "clematis/engine/orchestrator/core.py:"
R.dictrec("SliceCtx", {"slice_idx": "int", "started_ms": "int", "budgets": "Dict[str, int]", "agent_id": "str"})
_W = "('wall_ms' in slice_ctx['budgets'] and consumed.get('ms', 0) >= slice_ctx['budgets']['wall_ms'])"


def _B(k):
    return "(%r in slice_ctx['budgets'] and %r in consumed and consumed[%r] == slice_ctx['budgets'][%r])" % (k, k, k, k)


_Q = "(consumed.get('ms', 0) >= slice_ctx['budgets'].get('quantum_ms', 20))"
R.contract(
    ORCH + "_should_yield", "C17",
    types={"slice_ctx": "SliceCtx", "consumed": "Dict[str, int]"},
    ensures=[
        ("wall-first", "implies(" + _W + ", result == 'WALL_MS')"),
        ("budget-t1-iters", "implies(not " + _W + " and " + _B("t1_iters") + ", result == 'BUDGET_T1_ITERS')"),
        ("budget-t1-pops", "implies(not " + _W + " and not " + _B("t1_iters") + " and " + _B("t1_pops") + ", result == 'BUDGET_T1_POPS')"),
        ("budget-t2-k", "implies(not " + _W + " and not " + _B("t1_iters") + " and not " + _B("t1_pops") + " and " + _B("t2_k") +
         ", result == 'BUDGET_T2_K')"),
        ("budget-t3-ops", "implies(not " + _W + " and not " + _B("t1_iters") + " and not " + _B("t1_pops") + " and not " + _B("t2_k") +
         " and " + _B("t3_ops") + ", result == 'BUDGET_T3_OPS')"),
        ("quantum-last", "implies(not " + _W + " and not " + _B("t1_iters") + " and not " + _B("t1_pops") + " and not " + _B("t2_k") +
         " and not " + _B("t3_ops") + ", ite(" + _Q + ", result == 'QUANTUM_EXCEEDED', is_none(result)))"),
        ("pure", "seq_eq(consumed, old(consumed)) and seq_eq(slice_ctx['budgets'], old(slice_ctx['budgets']))"),
    ],
    raises="none",
)


def _starvation_lemma():
    """L starvation_bound(N): every history allowed by the contracts of next_turn / on_yield keeps
         phase 0: wait <= U            phase 1: consec[x] == 0 and wait <= (N-1)*mct + 1 + U
       with U = sum_{a != x} consec[a]; it implies wait <= 2*(N-1)*mct + 1 for a fixed agent x."""
    import z3
    goals = []
    for N in range(1, 7):
        mct = z3.Int("mct")
        c = [z3.Int("c%d" % a) for a in range(N)]        # consec_turns (agent 0 is x; ids in lex order = index order)
        c2 = [z3.Int("d%d" % a) for a in range(N)]
        wait, wait2, phase, phase2, p = z3.Ints("wait wait2 phase phase2 p")
        lexmin = z3.Int("lexmin")                          # position of the lexicographically least agent: any agent
        U = lambda cs: z3.Sum([cs[a] for a in range(1, N)]) if N > 1 else z3.IntVal(0)
        inv = lambda cs, w, ph: z3.And(
            [z3.And(cs[a] >= 0, cs[a] <= mct) for a in range(N)] +
            [z3.Or(ph == 0, ph == 1), w >= 0,
             z3.Implies(ph == 0, w <= U(cs)),
             z3.Implies(ph == 1, z3.And(cs[0] == 0, w <= (N - 1) * mct + 1 + U(cs)))])
        any_elig = z3.Or([c[a] < mct for a in range(N)])
        sel = lambda arr, i: z3.Sum([z3.If(i == a, arr[a], 0) for a in range(N)])
        # contract of next_turn (picks-queued-eligible / all-saturated-reset-lexmin)
        pick = z3.And(0 <= p, p < N, 0 <= lexmin, lexmin < N,
                      z3.If(any_elig, sel(c, p) < mct, p == lexmin))
        # contract of on_yield, driven with reset == (reason == RESET_CONSEC) == not any_elig
        step = z3.And([c2[a] == z3.If(any_elig, c[a] + z3.If(p == a, 1, 0), 0) for a in range(N)])
        # ghost bookkeeping of the waiting time of x (agent 0)
        book = z3.And(wait2 == z3.If(p == 0, 0, wait + 1),
                      phase2 == z3.If(p == 0, 0, z3.If(any_elig, phase, 1)))
        hyps = [mct >= 1, inv(c, wait, phase), pick, step, book]
        goals.append(("N%d/inductive" % N, hyps, inv(c2, wait2, phase2)))
        goals.append(("N%d/bound" % N, [mct >= 1, inv(c, wait, phase)], wait <= 2 * (N - 1) * mct + 1))
        goals.append(("N%d/init" % N, [mct >= 1] + [c[a] == 0 for a in range(N)], inv(c, z3.IntVal(0), z3.IntVal(0))))
    return goals


R.lemma("starvation_bound", "C17", _starvation_lemma)

# ------------------------------------------------------------------ budget derivation (orchestrator/core.py:_derive_budgets)
# "with scheduling enabled, slice budgets clamp stage work": the budgets a slice carries are exactly the configured
# scheduler.budgets entries (int-converted, absent/None entries left out) plus quantum_ms (default 20).  cfg ranges over
# every JSON-like value (Dyn); _get_cfg (namespace/dataclass flattening) is an assumed contract: returns ctx.cfg.
CORE = "clematis/engine/orchestrator/core.py:"
R.objtype("BudgetCtx", {"cfg": "Dyn"})
_GC = R.contract(CORE + "_get_cfg", "C17", verify=False, callee=False, name="_get_cfg(assumed)",
                 types={"ctx": "BudgetCtx"}, returns="Dyn", ensures=["dyn_same(result, ctx.cfg)"], modifies=[])
_B = "sched_budgets_of(ctx.cfg)"
_KEYS = ("t1_pops", "t1_iters", "t2_k", "t3_ops", "wall_ms")
R.contract(
    CORE + "_derive_budgets", "C17",
    types={"ctx": "BudgetCtx"}, returns="Dict[str, int]",
    funcs={CORE + "_get_cfg": _GC},
    requires=[("cfg-is-a-mapping-with-mapping-subtrees",
               "is_dict(ctx.cfg) and (is_dict(dget(ctx.cfg, 'scheduler', {})) or not dyn_truthy(dget(ctx.cfg, 'scheduler', {}))) and "
               "is_dict(" + _B + ")")],
    ensures=[("budget-%s-is-configured-value" % k,
              "implies(is_dict(dget(ctx.cfg, 'scheduler', {})), "
              "('%(k)s' in result) == ('%(k)s' in as_dict(%(b)s) and not is_null(as_dict(%(b)s)['%(k)s'])) and "
              "implies('%(k)s' in result, result['%(k)s'] == dyn_int(as_dict(%(b)s)['%(k)s'])))" % {"k": k, "b": _B})
             for k in _KEYS] + [
        ("quantum-is-configured-or-20",
         "result['quantum_ms'] == ite(is_dict(dget(ctx.cfg, 'scheduler', {})) and dyn_truthy(dget(ctx.cfg, 'scheduler', {})), "
         "dyn_int(dget(dget(ctx.cfg, 'scheduler', {}), 'quantum_ms', 20)), 20)"),
        ("nothing-else", "forall((k, 'str'), k in result, k == 'quantum_ms' or k == 't1_pops' or k == 't1_iters' or k == 't2_k' "
                         "or k == 't3_ops' or k == 'wall_ms')"),
    ],
    raises=None,      # int() of a non-numeric leaf raises: the validator rejects such configs (C14)
    loops={0: {"inv": [
        "forall((k, 'str'), k in out, k == 't1_pops' or k == 't1_iters' or k == 't2_k' or k == 't3_ops' or k == 'wall_ms')",
    ] + ["implies(_i > %d, ('%s' in out) == ('%s' in as_dict(b) and not is_null(as_dict(b)['%s'])) and "
         "implies('%s' in out, out['%s'] == dyn_int(as_dict(b)['%s'])))" % (i, k, k, k, k, k, k) for i, k in enumerate(_KEYS)]
      + ["implies(_i <= %d, not ('%s' in out))" % (i, k) for i, k in enumerate(_KEYS)]}},
    locals={"out": "Dict[str, int]"},
    feas_fresh=True, feas_timeout_ms=100,
)

# ------------------------------------------------------------------ stage-side clamps from slice budgets (T2, T3 bundle)
# "slice budgets clamp stage work (... retrieval hits used, plan ops)".  T1's clamps are the region contract
# t1_propagate[slice-clamps] (contracts/c12_t1.py) and the planner's min(per-turn cap, per-slice cap) is `deliberate`
# (contracts/c13_plan.py): both are registered for C17 as well.  Here: the use-only clamp of t2_semantic and the hand-over
# of the t3_ops cap into the plan bundle.
R.untype("T2Hit")
R.objtype("T2SliceCtx", {"slice_budgets": "Optional[Dict[str, Dyn]]"})
_CAP = "some(ctx.slice_budgets)['t2_k']"
_HAS_CAP = "(not is_none(ctx.slice_budgets) and 't2_k' in some(ctx.slice_budgets) and not is_null(" + _CAP + "))"
R.contract(
    "clematis/engine/stages/t2/core.py:t2_semantic", "C17", name="t2_semantic[slice-cap region]", callee=False,
    region=('caps = getattr(ctx, "slice_budgets", None) or {}', "if _t2_cap is None:"),
    types={"ctx": "T2SliceCtx", "state": "None", "text": "str", "t1": "None", "retrieved": "List[Un[T2Hit]]"},
    ensures=[
        ("no-cap-uses-every-hit", "implies(not " + _HAS_CAP + ", seq_eq(used_hits, retrieved))"),
        ("used-hits-within-slice-cap",
         "implies(" + _HAS_CAP + " and dyn_int_ok(" + _CAP + "), len(used_hits) <= max(dyn_int(" + _CAP + "), 0))"),
        ("unreadable-cap-uses-nothing", "implies(" + _HAS_CAP + " and not dyn_int_ok(" + _CAP + "), len(used_hits) == 0)"),
        ("used-hits-are-the-leading-hits",
         "len(used_hits) <= len(retrieved) and forall(i, 0 <= i < len(used_hits), used_hits[i] == retrieved[i])"),
        ("exactly-the-cap-when-enough-hits",
         "implies(" + _HAS_CAP + " and dyn_int_ok(" + _CAP + "), len(used_hits) == min(max(dyn_int(" + _CAP + "), 0), len(retrieved)))"),
        ("retrieved-kept-whole", "seq_eq(retrieved, old(retrieved))"),
    ],
    raises="none",
)

_T3 = "some(ctx.slice_budgets)['t3_ops']"
_HAS_T3 = "(not is_none(ctx.slice_budgets) and 't3_ops' in some(ctx.slice_budgets) and not is_null(" + _T3 + "))"
R.contract(
    "clematis/engine/stages/t3/bundle.py:assemble_bundle", "C17", name="assemble_bundle[slice-caps region]", callee=False,
    region=("slice_caps: Dict[str, int] = {}", "try: caps = getattr(ctx,"),
    types={"ctx": "T2SliceCtx", "state": "None", "t1": "None", "t2": "None"},
    ensures=[
        ("plan-op-cap-handed-to-the-planner",
         "implies(" + _HAS_T3 + " and dyn_int_ok(" + _T3 + "), 't3_ops' in slice_caps and slice_caps['t3_ops'] == dyn_int(" + _T3 + "))"),
        ("no-cap-no-entry", "implies(not " + _HAS_T3 + ", len(slice_caps) == 0)"),
        ("nothing-but-the-op-cap", "forall((k, 'str'), k in slice_caps, k == 't3_ops')"),
    ],
    raises="none",
    locals={"slice_caps": "Dict[str, int]"},
)
