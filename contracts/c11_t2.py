"""C11 -- retrieval honours scope, thresholds, caps and documented ranking (per-function parts).

clematis/memory/index.py (owner / recency filters, cosine ranking, tier search) and the rerank layers
(quality_ops.fuse, quality_mmr.mmr_select / mmr_reorder_full, hybrid.rerank_with_gel): rerankers only permute.

Modelling decisions (see ENGINE_GUIDE.md for the engine features):
 * an episode is a python dict: dict-shaped record `C11Episode` with the keys the code reads; "k?" = may be absent;
   `id` always present (type invariant of the memory store: InMemoryIndex.add is only fed episodes with an id);
 * vectors are opaque (`Un[Vec]`), `_cosine` is the uninterpreted real function `cosine(q, v)` (numerics are ND);
 * datetimes are reals (UTC seconds); `_parse_iso` is used under an *assumed* contract: a well-formed ISO string has
   one value (`iso_value`), anything else yields an arbitrary instant (the real code falls back to now()).
"""
from pyvc.verifier import REG as R

INDEX = "clematis/memory/index.py:"
R.untype("Vec")
# episode ids are strings that this code only hashes, compares and passes through str(): opaque ordered key sort
R.untype("EpId", strlike=True)
R.keyrec("C11Episode", {"id": "Un[EpId]", "owner?": "str", "ts?": "str", "vec_full?": "Un[Vec]", "text?": "str"})
R.objtype("C11MemIndex", {"_eps": "List[C11Episode]", "_ver": "int"}, cls=("clematis/memory/index.py", "InMemoryIndex"))
EPS = "List[C11Episode]"

R.opaque(INDEX + "_cosine", "cosine", ["Un[Vec]", "Un[Vec]"], "float")
R.uf("iso_ok", ["str"], "bool")
R.uf("iso_value", ["str"], "float")
R.contract(
    INDEX + "_parse_iso", "C11", verify=False,
    types={"ts": "str"}, returns="float",
    ensures=[("wellformed-deterministic", "implies(iso_ok(ts), result == iso_value(ts))")],
)

# ------------------------------------------------------------------ _filter_owner
R.contract(
    INDEX + "InMemoryIndex._filter_owner", "C11",
    types={"self": "C11MemIndex", "eps": EPS, "owner": "Optional[str]"},
    returns=EPS,
    ensures=[
        ("owner-scope", "implies(not is_none(owner), forall(i, 0 <= i < len(result), 'owner' in result[i] and result[i]['owner'] == some(owner)))"),
        ("no-owner-identity", "implies(is_none(owner), seq_eq(result, eps))"),
        ("results-are-inputs", "forall(i, 0 <= i < len(result), exists(j, 0 <= j < len(eps), eps[j] == result[i]))"),
        ("every-owned-episode-kept",
         "implies(not is_none(owner), forall(j, 0 <= j < len(eps), implies('owner' in eps[j] and eps[j]['owner'] == some(owner), "
         "exists(i, 0 <= i < len(result), result[i] == eps[j]))))"),
        ("relative-order-kept",
         "forall2(i, i2, 0 <= i and i < i2 and i2 < len(result), exists(j, 0 <= j < len(eps), eps[j] == result[i] and "
         "exists(j2, j < j2 and j2 < len(eps), eps[j2] == result[i2])))"),
        ("no-longer-than-input", "len(result) <= len(eps)"),
        ("input-untouched", "seq_eq(eps, old(eps)) and seq_eq(self._eps, old(self._eps)) and self._ver == old(self._ver)"),
    ],
    raises="none",
)

# ------------------------------------------------------------------ _filter_recent
_CUT = "(now_utc - 86400 * recent_days)"
_TS_OK_IN = "(iso_ok(ep_ts(%(e)s)) and iso_value(ep_ts(%(e)s)) >= %(c)s)"
R.contract(
    INDEX + "InMemoryIndex._filter_recent", "C11",
    types={"self": "C11MemIndex", "eps": EPS, "recent_days": "int", "now_utc": "float"},
    returns=EPS,
    ensures=[
        ("no-window-identity", "implies(recent_days <= 0, seq_eq(result, eps))"),
        ("kept-are-inputs", "forall(m, 0 <= m < len(result), exists(j, 0 <= j < len(eps), eps[j] == result[m]))"),
        # episodes whose timestamp is well-formed ISO8601 are kept iff it lies inside the window; a malformed timestamp
        # is parsed as "now" by the real code (kept unless the clock moved): left unspecified
        ("wellformed-inside-window-kept",
         "implies(recent_days > 0, forall(j, 0 <= j < len(eps), implies(" + _TS_OK_IN % {"e": "eps[j]", "c": _CUT} +
         ", exists(m, 0 <= m < len(result), result[m] == eps[j]))))"),
        ("wellformed-outside-window-dropped",
         "implies(recent_days > 0, forall(m, 0 <= m < len(result), implies(iso_ok(ep_ts(result[m])), iso_value(ep_ts(result[m])) >= " + _CUT + ")))"),
        ("no-longer-than-input", "len(result) <= len(eps)"),
        ("input-untouched", "seq_eq(eps, old(eps)) and seq_eq(self._eps, old(self._eps))"),
    ],
    raises="none",
    loops={0: {"inv": [
        "recent_days > 0 and cutoff == " + _CUT,
        "len(out) <= _i",
        "forall(m, 0 <= m < len(out), exists(j, 0 <= j < _i, eps[j] == out[m]) and "
        "implies(iso_ok(ep_ts(out[m])), iso_value(ep_ts(out[m])) >= cutoff))",
        "forall(j, 0 <= j < _i, implies(" + _TS_OK_IN % {"e": "eps[j]", "c": "cutoff"} + ", exists(m, 0 <= m < len(out), out[m] == eps[j])))",
    ]}},
    locals={"out": EPS},
)

# ------------------------------------------------------------------ _rank_by_cosine
_QUAL = "('vec_full' in %(e)s and cosine(q_vec, %(e)s['vec_full']) >= sim_threshold)"
_KEY = "(0 - %(s)s, %(e)s['id'])"
SCORED = "List[Tuple[C11Episode, float]]"
R.contract(
    INDEX + "InMemoryIndex._rank_by_cosine", ["C11", "C01"],   # (-score, id) tie-break: also a C01 clause
    types={"self": "C11MemIndex", "eps": EPS, "q_vec": "Un[Vec]", "k": "int", "sim_threshold": "float"},
    returns=SCORED,
    # t2.k_retrieval is validated >= 1; for k < 0 python's scored[:k] drops the *last* |k| entries instead of
    # returning nothing, so `len(result) <= max(k, 0)` does not hold there (reported as a finding)
    requires=[("validator-range", "k >= 0")],
    ensures=[
        ("at-most-k", "len(result) <= k"),
        ("results-are-scored-inputs-above-threshold",
         "forall(i, 0 <= i < len(result), exists(j, 0 <= j < len(eps), eps[j] == result[i][0] and 'vec_full' in eps[j] and "
         "result[i][1] == cosine(q_vec, eps[j]['vec_full']) and result[i][1] >= sim_threshold))"),
        ("ordered-by-score-desc-then-id",
         "forall2(i, j, 0 <= i and i < j and j < len(result), " + _KEY % {"s": "result[i][1]", "e": "result[i][0]"} + " <= " +
         _KEY % {"s": "result[j][1]", "e": "result[j][0]"} + ")"),
        ("dropped-rank-after-kept",
         "forall(j, 0 <= j < len(eps), implies(" + _QUAL % {"e": "eps[j]"} + ", "
         "exists(i, 0 <= i < len(result), result[i][0] == eps[j]) or "
         "forall(i, 0 <= i < len(result), " + _KEY % {"s": "result[i][1]", "e": "result[i][0]"} + " <= " +
         _KEY % {"s": "cosine(q_vec, eps[j]['vec_full'])", "e": "eps[j]"} + ")))", "noexport"),
        ("input-untouched", "seq_eq(eps, old(eps)) and seq_eq(self._eps, old(self._eps))"),
    ],
    raises="none",
    loops={0: {"inv": [
        "len(scored) <= _i",
        "forall(m, 0 <= m < len(scored), exists(j, 0 <= j < _i, eps[j] == scored[m][0] and 'vec_full' in eps[j] and "
        "scored[m][1] == cosine(q_vec, eps[j]['vec_full']) and scored[m][1] >= sim_threshold))",
        "forall(j, 0 <= j < _i, implies(" + _QUAL % {"e": "eps[j]"} + ", exists(m, 0 <= m < len(scored), scored[m][0] == eps[j] and "
        "scored[m][1] == cosine(q_vec, eps[j]['vec_full']))))",
    ]}},
    locals={"scored": SCORED},
)

# ------------------------------------------------------------------ _filter_quarters
# _to_quarter(ts) is seen as a function of the string (exact for well-formed timestamps; a malformed one is read as
# "now" by the real code, i.e. the current quarter: ND)
R.opaque(INDEX + "_to_quarter", "quarter_of", ["str"], "str")
_HASQ = "(not is_none(quarters) and len(some(quarters)) > 0)"
R.contract(
    INDEX + "InMemoryIndex._filter_quarters", "C11",
    types={"self": "C11MemIndex", "eps": EPS, "quarters": "Optional[List[str]]"},
    returns=EPS,
    ensures=[
        ("no-quarters-identity", "implies(not " + _HASQ + ", seq_eq(result, eps))"),
        ("kept-are-inputs", "forall(m, 0 <= m < len(result), exists(j, 0 <= j < len(eps), eps[j] == result[m]))"),
        ("kept-in-listed-quarter", "implies(" + _HASQ + ", forall(m, 0 <= m < len(result), quarter_of(ep_ts(result[m])) in some(quarters)))"),
        ("listed-quarter-kept", "implies(" + _HASQ + ", forall(j, 0 <= j < len(eps), implies(quarter_of(ep_ts(eps[j])) in some(quarters), "
                                "exists(m, 0 <= m < len(result), result[m] == eps[j]))))"),
        ("no-longer-than-input", "len(result) <= len(eps)"),
        ("input-untouched", "seq_eq(eps, old(eps)) and seq_eq(self._eps, old(self._eps))"),
    ],
    raises="none",
)

# ------------------------------------------------------------------ _search_with_episodes (per tier)
R.record("EpisodeRef", {"id": "Un[EpId]", "owner": "str", "score": "float", "text": "str"}, pyclass="clematis.engine.types:EpisodeRef")
# hints: the code reads sim_threshold / archive_quarters / now through .get() and treats a missing key exactly like a
# None value, so these are modelled as always-present Optional values (halves the shape forks each); recent_days has a
# non-None default (30): a genuinely optional key
# (clusters_top_m is read only through .get(k, 3): a missing key is the same as the value 3)
R.dictrec("SearchHints", {"recent_days?": "int", "clusters_top_m": "int", "sim_threshold": "Optional[float]",
                          "archive_quarters": "Optional[List[str]]", "now": "Optional[str]"})
_REF = ("(%(e)s['id'] == %(r)s.id and %(r)s.owner == %(e)s.get('owner', '') and %(r)s.text == %(e)s.get('text', '') and "
        "'vec_full' in %(e)s and %(r)s.score == cosine(q_vec, %(e)s['vec_full']))")
_VISIBLE = "(is_none(owner) or ('owner' in %(e)s and %(e)s['owner'] == some(owner)))"
_OUT_LOOP = {3: {"inv": [
    "len(out) == _i",
    "forall(j, 0 <= j < _i, out[j].id == _iter[j][0]['id'] and out[j].owner == _iter[j][0].get('owner', '') and "
    "out[j].score == _iter[j][1] and out[j].text == _iter[j][0].get('text', ''))",
]}}
_SEARCH_TYPES = {"self": "C11MemIndex", "episodes": EPS, "owner": "Optional[str]", "q_vec": "Un[Vec]", "k": "int", "hints": "SearchHints"}
_SEARCH_LOCALS = {"out": "List[EpisodeRef]", "results": SCORED}
_COMMON = [
    ("at-most-k", "len(result) <= k"),
    ("owner-scope", "implies(not is_none(owner), forall(i, 0 <= i < len(result), result[i].owner == some(owner)))"),
    ("similarity-threshold", "forall(i, 0 <= i < len(result), result[i].score >= hint_thr(hints))"),
    ("hits-are-visible-scored-episodes",
     "forall(i, 0 <= i < len(result), exists(j, 0 <= j < len(episodes), " + _REF % {"e": "episodes[j]", "r": "result[i]"} +
     " and " + _VISIBLE % {"e": "episodes[j]"} + "))"),
    ("ordered-by-score-desc-then-id",
     "forall2(i, j, 0 <= i and i < j and j < len(result), (0 - result[i].score, result[i].id) <= (0 - result[j].score, result[j].id))"),
    ("inputs-untouched", "seq_eq(episodes, old(episodes)) and seq_eq(self._eps, old(self._eps)) and self._ver == old(self._ver)"),
]
_EXACT_ARM = ["eps = self._filter_recent(", "results = self._rank_by_cosine(eps, q_vec"]
_ARCHIVE_ARM = ["eps = self._filter_quarters(", "results = self._rank_by_cosine(eps, q_vec"]
_CLUSTER_ARM = ["by_cluster", "for e in all_eps", "cid = _stable_cluster_id", "cluster_scores", "for cid, items in", "vecs = [", "if not vecs",
                "continue", "centroid =", "cs = _cosine", "chosen =", "pool", "for cid in sorted", "results = self._rank_by_cosine(pool"]
_NOW_OK = "(not is_none(hints['now']) and iso_ok(some(hints['now'])))"
_DAYS = "hints.get('recent_days', 30)"

R.contract(
    INDEX + "InMemoryIndex._search_with_episodes", "C11", name="InMemoryIndex._search_with_episodes[exact]",
    types=dict(_SEARCH_TYPES, tier="='exact_semantic'"),
    returns="List[EpisodeRef]",
    requires=[("validator-range", "k >= 0")],
    ensures=_COMMON + [
        ("exact-tier-recency-window",
         "implies(" + _NOW_OK + " and " + _DAYS + " > 0, forall(i, 0 <= i < len(result), exists(j, 0 <= j < len(episodes), "
         "episodes[j]['id'] == result[i].id and result[i].text == episodes[j].get('text', '') and " + _VISIBLE % {"e": "episodes[j]"} + " and "
         "implies(iso_ok(ep_ts(episodes[j])), iso_value(ep_ts(episodes[j])) >= iso_value(some(hints['now'])) - 86400 * " + _DAYS + "))))"),
    ],
    raises="none",
    loops=_OUT_LOOP, locals=_SEARCH_LOCALS, feas_timeout_ms=60,
    unreachable_ok=["if tier == 'cluster_semantic':"],   # this variant fixes tier = exact_semantic; the other arms have their own
)
R.contract(
    INDEX + "InMemoryIndex._search_with_episodes", "C11", name="InMemoryIndex._search_with_episodes[archive]", callee=False,
    types=dict(_SEARCH_TYPES, tier="='archive'"),
    returns="List[EpisodeRef]",
    requires=[("validator-range", "k >= 0")],
    ensures=_COMMON + [
        ("archive-tier-quarters",
         "implies(not is_none(hints['archive_quarters']) and len(some(hints['archive_quarters'])) > 0, "
         "forall(i, 0 <= i < len(result), exists(j, 0 <= j < len(episodes), episodes[j]['id'] == result[i].id and "
         "result[i].text == episodes[j].get('text', '') and quarter_of(ep_ts(episodes[j])) in some(hints['archive_quarters']))))"),
    ],
    raises="none",
    loops=_OUT_LOOP, locals=_SEARCH_LOCALS, feas_timeout_ms=60,
    unreachable_ok=_EXACT_ARM + _CLUSTER_ARM + ["results = []"],   # tier = archive
)
R.contract(
    INDEX + "InMemoryIndex._search_with_episodes", "C11", name="InMemoryIndex._search_with_episodes[unknown-tier]", callee=False,
    types=dict(_SEARCH_TYPES, tier="str"),
    returns="List[EpisodeRef]",
    requires=[("not-a-known-tier", "tier != 'exact_semantic' and tier != 'cluster_semantic' and tier != 'archive'")],
    ensures=[("unknown-tier-yields-nothing", "len(result) == 0"), _COMMON[-1]],
    raises="none",
    loops=_OUT_LOOP, locals=_SEARCH_LOCALS, feas_timeout_ms=60,
    # no known tier: all three arms are dead, and the output loop body never runs (results == [])
    unreachable_ok=_EXACT_ARM + _CLUSTER_ARM + _ARCHIVE_ARM + ["out.append("],
)

# ------------------------------------------------------------------ _search_with_episodes: cluster tier (region contract)
# the cluster arm in isolation: live-ins are the owner-filtered episodes and the parsed hints; the rule proved is
# "the ranked pool consists exactly of the episodes of the top-m clusters under (-centroid cosine, cluster id)"
R.untype("Cid", strlike=True)
R.opaque(INDEX + "_stable_cluster_id", "cluster_of", ["C11Episode"], "Un[Cid]")
_TOPM = "min(clusters_top_m, len(cluster_scores))"
R.contract(
    INDEX + "InMemoryIndex._search_with_episodes", "C11", name="InMemoryIndex._search_with_episodes[cluster-tier region]", callee=False,
    region=("by_cluster: Dict[str, List[Dict[str, Any]]] = {}", "results = self._rank_by_cosine(pool"),
    types={"self": "C11MemIndex", "episodes": EPS, "owner": "Optional[str]", "q_vec": "Un[Vec]", "k": "int", "tier": "str", "hints": "None",
           "all_eps": EPS, "sim_threshold": "float", "clusters_top_m": "int"},
    # t2.k_retrieval >= 1 and clusters_top_m >= 1 are validated; a negative top-m would make [:m] drop from the end
    requires=[("validator-range", "k >= 0 and clusters_top_m >= 0")],
    ensures=[
        ("clusters-partition-by-cluster-id",
         "forall((c, 'Un[Cid]'), c in by_cluster, forall(m, 0 <= m < len(by_cluster[c]), cluster_of(by_cluster[c][m]) == c and "
         "exists(j, 0 <= j < len(all_eps), all_eps[j] == by_cluster[c][m])))"),
        ("every-episode-is-in-its-cluster",
         "forall(j, 0 <= j < len(all_eps), cluster_of(all_eps[j]) in by_cluster and "
         "exists(m, 0 <= m < len(by_cluster[cluster_of(all_eps[j])]), by_cluster[cluster_of(all_eps[j])][m] == all_eps[j]))"),
        ("ranked-clusters-are-clusters", "forall(p, 0 <= p < len(cluster_scores), cluster_scores[p][0] in by_cluster)"),
        ("clusters-ranked-by-score-desc-then-id",
         "forall2(p, q, 0 <= p and p < q and q < len(cluster_scores), "
         "(0 - cluster_scores[p][1], cluster_scores[p][0]) <= (0 - cluster_scores[q][1], cluster_scores[q][0]))"),
        ("chosen-are-exactly-the-top-m",
         "forall((c, 'Un[Cid]'), c in chosen, exists(p, 0 <= p < " + _TOPM + ", cluster_scores[p][0] == c)) and "
         "forall(p, 0 <= p < " + _TOPM + ", cluster_scores[p][0] in chosen)"),
        ("pool-only-from-chosen-clusters",
         "forall(m, 0 <= m < len(pool), cluster_of(pool[m]) in chosen and exists(j, 0 <= j < len(all_eps), all_eps[j] == pool[m]))"),
        ("pool-has-every-episode-of-chosen-clusters",
         "forall(j, 0 <= j < len(all_eps), implies(cluster_of(all_eps[j]) in chosen, exists(m, 0 <= m < len(pool), pool[m] == all_eps[j])))"),
        ("hits-come-from-top-m-clusters",
         "forall(i, 0 <= i < len(results), cluster_of(results[i][0]) in chosen and exists(j, 0 <= j < len(all_eps), all_eps[j] == results[i][0]) "
         "and results[i][1] >= sim_threshold)"),
        ("at-most-k", "len(results) <= k"),
        ("input-untouched", "seq_eq(all_eps, old(all_eps)) and seq_eq(self._eps, old(self._eps))"),
    ],
    raises="none",
    loops={
        0: {"inv": [
            "forall((c, 'Un[Cid]'), c in by_cluster, forall(m, 0 <= m < len(by_cluster[c]), cluster_of(by_cluster[c][m]) == c and "
            "exists(j, 0 <= j < _i, all_eps[j] == by_cluster[c][m])))",
            "forall(j, 0 <= j < _i, cluster_of(all_eps[j]) in by_cluster and "
            "exists(m, 0 <= m < len(by_cluster[cluster_of(all_eps[j])]), by_cluster[cluster_of(all_eps[j])][m] == all_eps[j]))",
        ]},
        1: {"inv": ["forall(p, 0 <= p < len(cluster_scores), cluster_scores[p][0] in by_cluster)"]},
        2: {"inv": [
            "forall(m, 0 <= m < len(pool), cluster_of(pool[m]) in chosen and exists(j, 0 <= j < len(all_eps), all_eps[j] == pool[m]))",
            "forall(j, 0 <= j < len(all_eps), implies(exists(r, 0 <= r < _i, _iter[r] == cluster_of(all_eps[j])), "
            "exists(m, 0 <= m < len(pool), pool[m] == all_eps[j])))",
        ]},
    },
    locals={"by_cluster": "Dict[Un[Cid], List[C11Episode]]", "cluster_scores": "List[Tuple[Un[Cid], float]]", "pool": EPS,
            "results": SCORED, "vecs": "List[Un[Vec]]"},
    feas_timeout_ms=60, named_seqs=True,
)

# ------------------------------------------------------------------ MMR (quality_mmr.py): rerankers only permute
MMR = "clematis/engine/stages/t2/quality_mmr.py:"
R.untype("Toks")                       # token sets are only handed to dist_fn
R.untype("MmrId", strlike=True)        # ids are only compared (tie-break)
R.record("MMRItem", {"id": "Un[MmrId]", "rel": "float", "toks": "Un[Toks]"}, pyclass="clematis.engine.stages.t2.quality_mmr:MMRItem")
R.funtype("DistFn", params=["a", "b"], returns="float")     # any total real-valued function
ITEMS = "List[MMRItem]"
_N = "len(items)"
_PERM_OF_RANGE = [   # `X` is a permutation of range(len(items)): in range, pairwise distinct, onto (=> len(X) == n)
    ("%(tag)sindices-in-range", "forall(p, 0 <= p < len(%(X)s), 0 <= %(X)s[p] and %(X)s[p] < " + _N + ")"),
    ("%(tag)sno-duplicates", "forall2(p, q, 0 <= p and p < q and q < len(%(X)s), %(X)s[p] != %(X)s[q])"),
    # trig(i) is the engine's trigger marker (defined True): lets callers re-use the clause for a given index
    ("%(tag)severy-index-occurs", "forall(i, 0 <= i < " + _N + " and trig(i), exists(p, 0 <= p < len(%(X)s), %(X)s[p] == i))"),
]


def _perm(X, tag=""):
    return [(n % {"tag": tag}, c % {"X": X}) for n, c in _PERM_OF_RANGE]


_MKEY = "(0 - items[%(a)s].rel, items[%(a)s].id)"
R.contract(
    MMR + "_initial_order", "C11",
    types={"items": ITEMS}, returns="List[int]",
    ensures=_perm("result") + [
        ("same-length", "len(result) == " + _N),
        ("ordered-by-relevance-desc-then-id",
         "forall2(p, q, 0 <= p and p < q and q < len(result), " + _MKEY % {"a": "result[p]"} + " <= " + _MKEY % {"a": "result[q]"} + ")"),
        ("input-untouched", "seq_eq(items, old(items))"),
    ],
    raises="none",
)

_KEFF = "ite(is_none(k) or some(k) > " + _N + ", " + _N + ", some(k))"
_SEL_INV = [
    "n == " + _N + " and seq_eq(items, pre_loop(items))",
    "forall(p, 0 <= p < len(remaining), 0 <= remaining[p] and remaining[p] < n)",
    "forall2(p, q, 0 <= p and p < q and q < len(remaining), remaining[p] != remaining[q])",
    "forall(p, 0 <= p < len(selected), 0 <= selected[p] and selected[p] < n)",
    "forall2(p, q, 0 <= p and p < q and q < len(selected), selected[p] != selected[q])",
    "forall2(p, q, 0 <= p and p < len(selected) and 0 <= q and q < len(remaining), selected[p] != remaining[q])",
    "len(selected) + len(remaining) == n",
    "len(selected) <= max(some(k), 0) and some(k) <= n",
]
R.contract(
    MMR + "mmr_select", "C11",
    types={"items": ITEMS, "k": "Optional[int]", "lam": "float", "dist_fn": "DistFn"},
    returns="List[int]",
    ensures=[
        ("indices-in-range", "forall(p, 0 <= p < len(result), 0 <= result[p] and result[p] < " + _N + ")"),
        ("no-duplicates", "forall2(p, q, 0 <= p and p < q and q < len(result), result[p] != result[q])"),
        ("selects-exactly-min-k-n", "len(result) == max(" + _KEFF + ", 0)"),
        ("input-untouched", "seq_eq(items, old(items))"),
    ],
    raises={"ValueError": "lam < 0 or lam > 1"},
    ensures_exc=[("input-untouched", "seq_eq(items, old(items))")],
    loops={
        0: {"inv": _SEL_INV},
        1: {"inv": ["exists(p, 0 <= p < len(remaining), remaining[p] == best_i)"]},
        2: {"inv": []},
    },
    locals={"selected": "List[int]", "remaining": "List[int]", "best_val": "Optional[float]", "div": "float", "score": "float"},
    feas_timeout_ms=60,
)

# X == A + B  ==>  every element of A and of B occurs in X (witness index len(A)+q is supplied by the lemma)
R.ghostfun("lemma_concat_occurs", ["X", "A", "B"],
           requires=["len(X) == len(A) + len(B)", "forall(p, 0 <= p < len(A), X[p] == A[p])",
                     "forall(q, 0 <= q < len(B), X[len(A) + q] == B[q])"],
           ensures=["forall(p, 0 <= p < len(A), exists(r, 0 <= r < len(X), X[r] == A[p]))",
                    "forall(q, 0 <= q < len(B), exists(r, 0 <= r < len(X), X[r] == B[q]))"])


def _concat_lemma():
    import z3
    X, A, B = [z3.Array(n, z3.IntSort(), z3.IntSort()) for n in ("X", "A", "B")]
    la, lb, lx, p, q, r = z3.Ints("la lb lx p q r")
    hyps = [la >= 0, lb >= 0, lx == la + lb,
            z3.ForAll([p], z3.Implies(z3.And(0 <= p, p < la), X[p] == A[p])),
            z3.ForAll([q], z3.Implies(z3.And(0 <= q, q < lb), X[la + q] == B[q]))]
    return [("from-left", hyps, z3.ForAll([p], z3.Implies(z3.And(0 <= p, p < la), z3.Exists([r], z3.And(0 <= r, r < lx, X[r] == A[p]))))),
            ("from-right", hyps, z3.ForAll([q], z3.Implies(z3.And(0 <= q, q < lb), z3.Exists([r], z3.And(0 <= r, r < lx, X[r] == B[q])))))]


R.lemma("concat_occurs", "C11", _concat_lemma)

# O lists every index < n, X contains every element of O  ==>  X lists every index < n
R.ghostfun("lemma_onto_compose", ["X", "O", "n"],
           requires=["forall(i, 0 <= i < n and trig(i), exists(r, 0 <= r < len(O), O[r] == i))",
                     "forall(r, 0 <= r < len(O), exists(p, 0 <= p < len(X), X[p] == O[r]))"],
           ensures=["forall(i, 0 <= i < n and trig(i), exists(p, 0 <= p < len(X), X[p] == i))"])


def _onto_lemma():
    import z3
    X, O = [z3.Array(n, z3.IntSort(), z3.IntSort()) for n in ("X", "O")]
    lo, lx, n, i, p, r = z3.Ints("lo lx n i p r")
    hyps = [z3.ForAll([i], z3.Implies(z3.And(0 <= i, i < n), z3.Exists([r], z3.And(0 <= r, r < lo, O[r] == i)))),
            z3.ForAll([r], z3.Implies(z3.And(0 <= r, r < lo), z3.Exists([p], z3.And(0 <= p, p < lx, X[p] == O[r]))))]
    return [("compose", hyps, z3.ForAll([i], z3.Implies(z3.And(0 <= i, i < n), z3.Exists([p], z3.And(0 <= p, p < lx, X[p] == i)))))]


R.lemma("onto_compose", "C11", _onto_lemma)

R.contract(
    MMR + "mmr_reorder_full", "C11",
    types={"items": ITEMS, "k": "Optional[int]", "lam": "float"},
    returns="List[int]",
    ensures=_perm("result") + [("input-untouched", "seq_eq(items, old(items))")],
    raises={"ValueError": "lam < 0 or lam > 1"},
    asserts={
        "picked": ["forall((v, 'int'), v in picked, exists(p, 0 <= p < len(head), head[p] == v))"],
        "tail": ["forall(r, 0 <= r < len(order0), implies(not (order0[r] in picked), exists(q, 0 <= q < len(tail), tail[q] == order0[r])))",
                 "forall(r, 0 <= r < len(order0), exists(p, 0 <= p < len(head), head[p] == order0[r]) or exists(q, 0 <= q < len(tail), tail[q] == order0[r]))"]},
    post_setup=["lemma_concat_occurs(result, head, tail)", "lemma_onto_compose(result, order0, len(items))"], named_seqs=True,
)

# ------------------------------------------------------------------ lexical fusion (quality_ops.fuse): only permutes
QOPS = "clematis/engine/stages/t2/quality_ops.py:"
R.untype("FId", strlike=True)
R.keyrec("FuseItem", {"id": "Un[FId]", "score?": "float", "text?": "str"})
R.keyrec("FusedItem", {"id": "Un[FId]", "score?": "float", "text?": "str", "score_fused": "float"})
_FSCORE = "(alpha * sem_rr.get(items[%(j)s]['id'], 0.0) + (1.0 - alpha) * lex_rr.get(items[%(j)s]['id'], 0.0))"
R.contract(
    QOPS + "fuse", "C11", name="fuse[interpolate-and-sort region]", callee=False,
    region=("fused: List[Dict[str, Any]] = []", "fused.sort(key="),
    types={"query": "str", "items": "List[FuseItem]", "cfg": "None", "sem_rr": "Dict[Un[FId], float]", "lex_rr": "Dict[Un[FId], float]",
           "alpha": "float"},
    ensures=[
        ("same-length", "len(fused) == len(items)"),
        ("every-output-is-an-input-plus-fused-score",
         "forall(i, 0 <= i < len(fused), exists(j, 0 <= j < len(items), fused_of(fused[i], items[j]) and fused[i]['score_fused'] == " + _FSCORE % {"j": "j"} + "))"),
        ("every-input-occurs-in-output", "forall(j, 0 <= j < len(items), exists(i, 0 <= i < len(fused), fused_of(fused[i], items[j])))"),
        ("distinct-ids-stay-distinct",
         "implies(forall2(a, b, 0 <= a and a < b and b < len(items), items[a]['id'] != items[b]['id']), "
         "forall2(a, b, 0 <= a and a < b and b < len(fused), fused[a]['id'] != fused[b]['id']))"),
        ("ordered-by-fused-score-desc-then-id",
         "forall2(a, b, 0 <= a and a < b and b < len(fused), (0 - fused[a]['score_fused'], fused[a]['id']) <= (0 - fused[b]['score_fused'], fused[b]['id']))"),
        ("input-untouched", "seq_eq(items, old(items))"),
    ],
    raises="none",
    loops={0: {"inv": [
        "len(fused) == _i",
        "forall(j, 0 <= j < _i, fused_of(fused[j], items[j]) and fused[j]['score_fused'] == " + _FSCORE % {"j": "j"} + ")",
    ]}},
    locals={"fused": "List[FusedItem]"},
)

# ------------------------------------------------------------------ hybrid graph rerank (hybrid.rerank_with_gel): only permutes
HY = "clematis/engine/stages/hybrid.py:"
for _n in ("C11GItem", "C11EdgeRec", "C11GelCtx", "C11GelState"):
    R.untype(_n)
R.untype("C11GId", strlike=True)
EDGES = "Dict[str, Un[C11EdgeRec]]"
R.dictrec("C11HybridCfg", {"enabled": "bool", "use_graph": "bool", "anchor_top_m": "int", "walk_hops": "int", "edge_threshold": "float",
                        "lambda_graph": "float", "damping": "float", "degree_norm": "str", "max_bonus": "float", "k_max": "int"})
R.dictrec("C11GelGraph", {"edges": EDGES})
# assumed: _hybrid_cfg returns a dict with all ten keys (it setdefault()s each of them); _graph_store returns the edge table
R.contract(HY + "_hybrid_cfg", "C11", verify=False, types={"ctx": "Un[C11GelCtx]"}, returns="C11HybridCfg")
R.contract(HY + "_graph_store", "C11", verify=False, types={"state": "Un[C11GelState]"}, returns="C11GelGraph")
# item adapters and graph readers are seen as functions of their arguments (scores never matter for "only permutes")
R.opaque(HY + "_get_id", "gel_id", ["Un[C11GItem]"], "Un[C11GId]")
R.opaque(HY + "_get_sim", "gel_sim", ["Un[C11GItem]"], "float")
R.opaque(HY + "_edge_weight", "gel_edge_w", [EDGES, "Un[C11GId]", "Un[C11GId]"], "float")
R.opaque(HY + "_degree", "gel_degree", [EDGES, "Un[C11GId]", "float", "Set[Un[C11GId]]"], "int")
_K = "min(len(items), cfg['k_max'])"
R.contract(
    HY + "rerank_with_gel", "C11",
    types={"ctx": "Un[C11GelCtx]", "state": "Un[C11GelState]", "items": "List[Un[C11GItem]]"},
    ensures=[
        ("same-length", "len(result[0]) == len(items)"),
        ("every-output-is-an-input", "forall(i, 0 <= i < len(result[0]), exists(j, 0 <= j < len(items), result[0][i] == items[j]))"),
        ("every-input-occurs-in-output",
         "forall(j, 0 <= j < len(items) and trig(j), exists(i, 0 <= i < len(result[0]), result[0][i] == items[j]))"),
        ("top-1-fixed", "implies(len(items) > 0, result[0][0] == items[0])"),
        ("tail-beyond-k-max-untouched", "forall(i, " + _K + " <= i and 0 <= i and i < len(items), result[0][i] == items[i])"),
        ("reorders-only-inside-top-k", "forall(i, 0 <= i < " + _K + ", exists(j, 0 <= j < " + _K + ", result[0][i] == items[j]))"),
        ("disabled-is-identity", "implies(not cfg['enabled'] or not cfg['use_graph'], seq_eq(result[0], items))"),
        ("input-untouched", "seq_eq(items, old(items))"),
    ],
    raises="none",
    loops={0: {"inv": []}, 1: {"inv": []}, 2: {"inv": []}, 3: {"inv": []}, 4: {"inv": []}, 5: {"inv": []}, 6: {"inv": []},
           7: {"inv": ["len(hybrid_scores) == _i"]}},
    locals={"edges": EDGES, "best_aw": "Dict[Un[C11GId], float]", "deg_cache": "Dict[Un[C11GId], int]",
            "hybrid_scores": "List[Tuple[float, Un[C11GId], int]]", "acc": "float", "best": "float", "best_path": "float", "bonus": "float"},
    asserts={
        "order": [
            "len(order) == k_considered and order[0] == 0",
            "forall(i, 1 <= i < len(order), 1 <= order[i] and order[i] < k_considered)",
            "forall(j, 1 <= j < k_considered and trig(j) and trig(j - 1), exists(i, 1 <= i < len(order), order[i] == j))",
        ],
    },
    feas_timeout_ms=60, named_seqs=True,
    unreachable_ok=["order = [0]"],   # the `else: order = [0]` arm is dead code: k_considered <= 1 returned earlier
)

# ------------------------------------------------------------------ t2_semantic: the sequential tier walks hand the index
# the configured threshold / owner / k / tier hints.  The per-tier clauses of `_search_with_episodes` above are stated
# over the hints it is given; what reaches it from the stage is decided here: both `for tier in tiers:` walks of
# t2_semantic are verified as regions against an abstract index whose `search_tiered` has the *precondition* "hints
# carry the stage's sim_threshold, the tier's own hint and the logical now; owner and k are the stage's" (named
# obligations call:.../pre:*), returns arbitrary hit objects, and never sees a tier other than the three served ones.
import ast as _ast
T2C = "clematis/engine/stages/t2/core.py:"


def _tier_walks(fn):
    out = []
    for n in _ast.walk(fn):
        if isinstance(n, _ast.For) and isinstance(n.iter, _ast.Name) and n.iter.id == "tiers" and any(
                isinstance(c, _ast.Call) and isinstance(c.func, _ast.Attribute) and c.func.attr == "search_tiered"
                for c in _ast.walk(n)):
            out.append(n)
    return sorted(out, key=lambda n: n.lineno)


R.region("tier-walk-0", lambda fn: _tier_walks(fn)[0:1])
R.region("tier-walk-1", lambda fn: _tier_walks(fn)[1:2])
R.untype("C11QVec")
R.record("C11HitObj", {"id": "str"})
_SEARCH_REQ = [
              ("threshold-passed", "'sim_threshold' in hints and hints['sim_threshold'] == g_thr"),
              ("owner-is-the-stage-owner", "owner == g_owner"),
              ("k-is-k-retrieval", "k == g_k"),
              ("only-served-tiers", "tier == 'exact_semantic' or tier == 'cluster_semantic' or tier == 'archive'"),
              ("exact-tier-gets-recency-window", "tier != 'exact_semantic' or ('recent_days' in hints and hints['recent_days'] == g_days)"),
              ("cluster-tier-gets-top-m", "tier != 'cluster_semantic' or ('clusters_top_m' in hints and hints['clusters_top_m'] == g_topm)"),
              ("logical-now-passed", "is_none(g_now) or len(some(g_now)) == 0 or ('now' in hints and hints['now'] == some(g_now))"),
          ]
R.funtype("C11SearchTiered", params=["owner", "q_vec", "k", "tier", "hints"], returns="List[C11HitObj]",
          requires=_SEARCH_REQ,
          effects_before=["n_calls = n_calls + 1"])
R.objtype("C11IndexIface", {"search_tiered": "C11SearchTiered"})
_WALK_INV = ["implies(k_retrieval >= 1, len(retrieved) < k_retrieval)",
             "forall(a, 0 <= a < len(retrieved), retrieved[a].id in seen_ids)",
             "forall2(a, b, 0 <= a and a < b and b < len(retrieved), retrieved[a].id != retrieved[b].id)"]
for _t in ("tier-walk-0", "tier-walk-1"):
    R.contract(
        T2C + "t2_semantic#" + _t, "C11", name="t2_semantic[%s]" % _t, callee=False,
        types={"tiers": "List[str]", "sim_threshold": "float", "exact_recent_days": "int", "clusters_top_m": "int",
               "now_str": "Optional[str]", "owner_query": "Optional[str]", "q_vec": "Un[C11QVec]", "k_retrieval": "int",
               "index": "C11IndexIface", "retrieved": "List[C11HitObj]", "seen_ids": "Set[str]",
               "tier_sequence": "List[str]", "raw_hits_by_id": "Dict[str, str]"},
        ghost={"g_thr": ("float", "any"), "g_owner": ("Optional[str]", "any"), "g_k": ("int", "any"), "g_days": ("int", "any"),
               "g_topm": ("int", "any"), "g_now": ("Optional[str]", "any"), "n_calls": ("int", "0")},
        requires=[("ghosts-name-the-stage-values", "g_thr == sim_threshold and g_owner == owner_query and g_k == k_retrieval and "
                   "g_days == exact_recent_days and g_topm == clusters_top_m and g_now == now_str"),
                  ("fresh-result-list", "len(retrieved) == 0 and len(seen_ids) == 0 and len(tier_sequence) == 0")],
        ensures=[
            ("at-most-one-search-per-tier", "n_calls <= len(tiers)"),
            ("tiers-untouched", "seq_eq(tiers, old(tiers))"),
            ("at-most-k-hits-collected", "implies(k_retrieval >= 1, len(retrieved) <= k_retrieval)"),
            ("collected-ids-are-distinct", "forall2(a, b, 0 <= a and a < b and b < len(retrieved), retrieved[a].id != retrieved[b].id)"),
        ],
        raises="none",
        loops={0: {"inv": ["n_calls <= _i", "len(tier_sequence) == _i"] + _WALK_INV, "modifies": ["n_calls"]},
               1: {"inv": ["n_calls <= pre_loop(n_calls)"] + _WALK_INV}},
        locals={"hits": "List[C11HitObj]"},
        # hit objects are not dicts here (the dict-shaped hits of the LanceDB backend go through _EpRefShim)
        unreachable_ok=["hid = str(h.get('id'))", "raw_hits_by_id[hid] = h", "ref = _EpRefShim(h)"],
    )


# ------------------------------------------------------------------ the parallel T2 path hands each shard the same hints
# clematis/engine/stages/t2/parallel.py:collect_shard_hits is what every T2 shard task runs (C09: "parallelism is
# indistinguishable from sequential execution"): whole-function contract against the same abstract index interface as
# the sequential tier walks -- the shard's search_tiered has the *same* call-site preconditions (threshold, owner, k,
# the tier's own hint, logical now), so a shard search cannot be configured differently from the sequential one.
T2P = "clematis/engine/stages/t2/parallel.py:"
R.record("C11ShardHit", {"id": "str", "text": "str", "score": "float"})
R.funtype("C11ShardSearch", params=["owner", "q_vec", "k", "tier", "hints"], returns="List[C11ShardHit]", requires=_SEARCH_REQ,
          effects_before=["n_calls = n_calls + 1"])
R.objtype("C11ShardIface", {"search_tiered": "C11ShardSearch"})
R.dictshape("C11NormHit", required={"id": "str", "text": "str", "score": "float"})
R.contract(
    T2P + "collect_shard_hits", ["C09", "C11"], callee=False,
    types={"shard": "C11ShardIface", "tiers": "List[str]", "owner_query": "Optional[str]", "q_vec": "Un[C11QVec]", "k_retrieval": "int",
           "now_str": "Optional[str]", "sim_threshold": "float", "clusters_top_m": "int", "exact_recent_days": "int"},
    returns="Dict[str, List[C11NormHit]]",
    ghost={"g_thr": ("float", "any"), "g_owner": ("Optional[str]", "any"), "g_k": ("int", "any"), "g_days": ("int", "any"),
           "g_topm": ("int", "any"), "g_now": ("Optional[str]", "any"), "n_calls": ("int", "0")},
    requires=[("ghosts-name-the-stage-values", "g_thr == sim_threshold and g_owner == owner_query and g_k == k_retrieval and "
               "g_days == exact_recent_days and g_topm == clusters_top_m and g_now == now_str")],
    ensures=[
        ("at-most-one-search-per-tier", "n_calls <= len(tiers)"),
        ("only-served-tiers-reported", "forall((t, 'str'), t in result, t == 'exact_semantic' or t == 'cluster_semantic' or t == 'archive')"),
        ("tiers-untouched", "seq_eq(tiers, old(tiers))"),
    ],
    raises="none",
    loops={0: {"inv": ["n_calls <= _i",
                       "forall((t, 'str'), t in out, t == 'exact_semantic' or t == 'cluster_semantic' or t == 'archive')"], "modifies": ["n_calls"]},
           1: {"inv": ["len(normalised) == _i", "n_calls == pre_loop(n_calls)"]}},
    locals={"hits": "List[C11ShardHit]", "normalised": "List[C11NormHit]", "out": "Dict[str, List[C11NormHit]]"},
    # the abstract shard does not raise; its hits are objects, not dicts
    unreachable_ok=["hits = []", "data = dict(hit)", "data['id'] = str(data.get('id'))", "if 'score' not in data:",
                    "data['score'] = float(data.get('_score', 0.0))", "normalised.append(data)"],
)

# ------------------------------------------------------------------ items_for_fusion: every hit becomes one fusion candidate, in order
# "Rerank layers (hybrid graph rerank, lexical fusion, MMR) only permute that set": apply_quality rebuilds the hit list
# from the fused / MMR-ordered *candidates*, so a hit that is not turned into a candidate here disappears from the result.
# Clause: one candidate per hit, same order, id and text carried, surrogate score strictly decreasing with the rank
# (total - idx), so the semantic ranking fed to fuse is the retrieval order.
R.record("FusionRef", {"id": "Un[FId]", "text": "str"})
R.keyrec("FusionCand", {"id": "Un[FId]", "score": "float", "text": "str"})
R.contract(
    "clematis/engine/stages/t2/helpers.py:items_for_fusion", "C11",
    types={"retrieved_list": "List[FusionRef]"}, returns="List[FusionCand]",
    ensures=[
        ("one-candidate-per-hit", "len(result) == len(retrieved_list)"),
        ("same-order-id-and-text-carried",
         "forall(i, 0 <= i < len(retrieved_list), result[i]['id'] == retrieved_list[i].id and result[i]['text'] == retrieved_list[i].text)"),
        ("surrogate-score-is-total-minus-rank",
         "forall(i, 0 <= i < len(retrieved_list), result[i]['score'] == len(retrieved_list) - i)"),
        ("input-untouched", "seq_eq(retrieved_list, old(retrieved_list))"),
    ],
    raises="none", callee=False,
    loops={0: {"inv": [
        "len(out) == _i",
        "forall(j, 0 <= j < _i, out[j]['id'] == retrieved[j].id and out[j]['text'] == retrieved[j].text and out[j]['score'] == total - j)",
    ]}},
    locals={"out": "List[FusionCand]"},
)
