"""C11 -- retrieval honours scope, thresholds, caps and documented ranking (per-function parts).

clematis/memory/index.py (owner / recency filters, cosine ranking, tier search) and the rerank layers
(quality_ops.fuse, quality_mmr.mmr_select / mmr_reorder_full, hybrid.rerank_with_gel): rerankers only permute.

Modelling decisions (see ENGINE_GUIDE.md for the engine features):
 * an episode is a python dict: dict-shaped record `Episode` with the keys the code reads; "k?" = may be absent;
   `id` always present (type invariant of the memory store: InMemoryIndex.add is only fed episodes with an id);
 * vectors are opaque (`Un[Vec]`), `_cosine` is the uninterpreted real function `cosine(q, v)` (numerics are ND);
 * datetimes are reals (UTC seconds); `_parse_iso` is used under an *assumed* contract: a well-formed ISO string has
   one value (`iso_value`), anything else yields an arbitrary instant (the real code falls back to now()).
"""
from pyvc.verifier import REG as R

INDEX = "clematis/memory/index.py:"
R.untype("Vec")
# episode ids are strings that this code only hashes, compares and passes through str(): opaque ordered key sort
R.untype("EpId", strlike=True)
R.dictlike("Episode", {"id": "Un[EpId]", "owner?": "str", "ts?": "str", "vec_full?": "Un[Vec]", "text?": "str"})
R.objtype("MemIndex", {"_eps": "List[Episode]", "_ver": "int"}, cls=("clematis/memory/index.py", "InMemoryIndex"))
EPS = "List[Episode]"

R.opaque(INDEX + "_cosine", "cosine", ["Un[Vec]", "Un[Vec]"], "float")
R.uf("iso_ok", ["str"], "bool")
R.uf("iso_value", ["str"], "float")
R.contract(
    INDEX + "_parse_iso", "C11", verify=False,
    types={"ts": "str"}, returns="float",
    ensures=[("wellformed-deterministic", "implies(iso_ok(ts), result == iso_value(ts))")],
)

# ------------------------------------------------------------------ _filter_owner
R.contract(
    INDEX + "InMemoryIndex._filter_owner", "C11",
    types={"self": "MemIndex", "eps": EPS, "owner": "Optional[str]"},
    returns=EPS,
    ensures=[
        ("owner-scope", "implies(not is_none(owner), forall(i, 0 <= i < len(result), 'owner' in result[i] and result[i]['owner'] == some(owner)))"),
        ("no-owner-identity", "implies(is_none(owner), seq_eq(result, eps))"),
        ("results-are-inputs", "forall(i, 0 <= i < len(result), exists(j, 0 <= j < len(eps), eps[j] == result[i]))"),
        ("every-owned-episode-kept",
         "implies(not is_none(owner), forall(j, 0 <= j < len(eps), implies('owner' in eps[j] and eps[j]['owner'] == some(owner), "
         "exists(i, 0 <= i < len(result), result[i] == eps[j]))))"),
        ("relative-order-kept",
         "forall2(i, i2, 0 <= i and i < i2 and i2 < len(result), exists(j, 0 <= j < len(eps), eps[j] == result[i] and "
         "exists(j2, j < j2 and j2 < len(eps), eps[j2] == result[i2])))"),
        ("no-longer-than-input", "len(result) <= len(eps)"),
        ("input-untouched", "seq_eq(eps, old(eps)) and seq_eq(self._eps, old(self._eps)) and self._ver == old(self._ver)"),
    ],
    raises="none",
)

# ------------------------------------------------------------------ _filter_recent
_CUT = "(now_utc - 86400 * recent_days)"
_TS_OK_IN = "(iso_ok(ep_ts(%(e)s)) and iso_value(ep_ts(%(e)s)) >= %(c)s)"
R.contract(
    INDEX + "InMemoryIndex._filter_recent", "C11",
    types={"self": "MemIndex", "eps": EPS, "recent_days": "int", "now_utc": "float"},
    returns=EPS,
    ensures=[
        ("no-window-identity", "implies(recent_days <= 0, seq_eq(result, eps))"),
        ("kept-are-inputs", "forall(m, 0 <= m < len(result), exists(j, 0 <= j < len(eps), eps[j] == result[m]))"),
        # episodes whose timestamp is well-formed ISO8601 are kept iff it lies inside the window; a malformed timestamp
        # is parsed as "now" by the real code (kept unless the clock moved): left unspecified
        ("wellformed-inside-window-kept",
         "implies(recent_days > 0, forall(j, 0 <= j < len(eps), implies(" + _TS_OK_IN % {"e": "eps[j]", "c": _CUT} +
         ", exists(m, 0 <= m < len(result), result[m] == eps[j]))))"),
        ("wellformed-outside-window-dropped",
         "implies(recent_days > 0, forall(m, 0 <= m < len(result), implies(iso_ok(ep_ts(result[m])), iso_value(ep_ts(result[m])) >= " + _CUT + ")))"),
        ("no-longer-than-input", "len(result) <= len(eps)"),
        ("input-untouched", "seq_eq(eps, old(eps)) and seq_eq(self._eps, old(self._eps))"),
    ],
    raises="none",
    loops={0: {"inv": [
        "recent_days > 0 and cutoff == " + _CUT,
        "len(out) <= _i",
        "forall(m, 0 <= m < len(out), exists(j, 0 <= j < _i, eps[j] == out[m]) and "
        "implies(iso_ok(ep_ts(out[m])), iso_value(ep_ts(out[m])) >= cutoff))",
        "forall(j, 0 <= j < _i, implies(" + _TS_OK_IN % {"e": "eps[j]", "c": "cutoff"} + ", exists(m, 0 <= m < len(out), out[m] == eps[j])))",
    ]}},
    locals={"out": EPS},
)

# ------------------------------------------------------------------ _rank_by_cosine
_QUAL = "('vec_full' in %(e)s and cosine(q_vec, %(e)s['vec_full']) >= sim_threshold)"
_KEY = "(0 - %(s)s, %(e)s['id'])"
SCORED = "List[Tuple[Episode, float]]"
R.contract(
    INDEX + "InMemoryIndex._rank_by_cosine", "C11",
    types={"self": "MemIndex", "eps": EPS, "q_vec": "Un[Vec]", "k": "int", "sim_threshold": "float"},
    returns=SCORED,
    # t2.k_retrieval is validated >= 1; for k < 0 python's scored[:k] drops the *last* |k| entries instead of
    # returning nothing, so `len(result) <= max(k, 0)` does not hold there (reported as a finding)
    requires=[("validator-range", "k >= 0")],
    ensures=[
        ("at-most-k", "len(result) <= k"),
        ("results-are-scored-inputs-above-threshold",
         "forall(i, 0 <= i < len(result), exists(j, 0 <= j < len(eps), eps[j] == result[i][0] and 'vec_full' in eps[j] and "
         "result[i][1] == cosine(q_vec, eps[j]['vec_full']) and result[i][1] >= sim_threshold))"),
        ("ordered-by-score-desc-then-id",
         "forall2(i, j, 0 <= i and i < j and j < len(result), " + _KEY % {"s": "result[i][1]", "e": "result[i][0]"} + " <= " +
         _KEY % {"s": "result[j][1]", "e": "result[j][0]"} + ")"),
        ("dropped-rank-after-kept",
         "forall(j, 0 <= j < len(eps), implies(" + _QUAL % {"e": "eps[j]"} + ", "
         "exists(i, 0 <= i < len(result), result[i][0] == eps[j]) or "
         "forall(i, 0 <= i < len(result), " + _KEY % {"s": "result[i][1]", "e": "result[i][0]"} + " <= " +
         _KEY % {"s": "cosine(q_vec, eps[j]['vec_full'])", "e": "eps[j]"} + ")))", "noexport"),
        ("input-untouched", "seq_eq(eps, old(eps)) and seq_eq(self._eps, old(self._eps))"),
    ],
    raises="none",
    loops={0: {"inv": [
        "len(scored) <= _i",
        "forall(m, 0 <= m < len(scored), exists(j, 0 <= j < _i, eps[j] == scored[m][0] and 'vec_full' in eps[j] and "
        "scored[m][1] == cosine(q_vec, eps[j]['vec_full']) and scored[m][1] >= sim_threshold))",
        "forall(j, 0 <= j < _i, implies(" + _QUAL % {"e": "eps[j]"} + ", exists(m, 0 <= m < len(scored), scored[m][0] == eps[j] and "
        "scored[m][1] == cosine(q_vec, eps[j]['vec_full']))))",
    ]}},
    locals={"scored": SCORED},
)
