from pyvc.verifier import REG as R

AP = "clematis/engine/apply.py:"
PD = "List[ProposedDelta]"

# abstract store: apply_fn(gid, batch) returns a mapping or raises; every call is recorded in ghost `calls`,
# its outcome in ghost `oks`
# the store's result mapping is untrusted: counts may be missing or None (a successful batch whose result cannot be
# read must still count as the batch having been applied)
R.funtype("ApplyFn", params=["gid", "batch"], returns="Dict[str, Optional[int]]", raises="Exception",
          effects_before=["calls.append((gid, list(batch)))"], effects=["oks.append(True)"], effects_exc=["oks.append(False)"])
R.optobj("OptApplyFn", "ApplyFn")
R.objtype("Store", {"apply_deltas": "OptApplyFn"})
R.optobj("OptStore", "Store")
R.funtype("InvalidateFn", params=["ns"], returns="int", raises="Exception", effects_before=["inval.append(ns)"],
          effects_exc=["inval_err.append(ns)"])
R.objtype("CacheMgr", {"invalidate_namespace": "InvalidateFn"})
R.optobj("OptCacheMgr", "CacheMgr")
R.dictrec("ApplyState", {"store": "OptStore", "version_etag": "Optional[str]", "_cache_mgr": "OptCacheMgr"})
R.dictrec("ApplyCacheCfg", {"namespaces": "List[str]"})
R.dictrec("ApplyT4Cfg", {"snapshot_every_n_turns": "int", "cache_bust_mode": "str", "cache": "ApplyCacheCfg"})
R.objtype("ApplyConfig", {"t4": "ApplyT4Cfg"})
R.objtype("ApplyCtx", {"turn_id": "int", "config": "ApplyConfig"})
R.objtype("T4Res", {"approved_deltas": PD})

# assumed contract of the snapshot writer (verified separately under C06; here: records the request, no exception)
R.contract("clematis/engine/snapshot.py:write_snapshot", "C04", verify=False,
           types={"ctx": "ApplyCtx", "state": "ApplyState", "version_etag": "str", "applied": "int", "deltas": PD},
           returns="Optional[str]",
           effects=["snaps.append((version_etag, applied))"])

GHOST = {"calls": ("List[Tuple[str, List[ProposedDelta]]]", "empty"), "oks": ("List[bool]", "empty"),
         "inval": ("List[str]", "empty"), "inval_err": ("List[str]", "empty"), "snaps": ("List[Tuple[str, int]]", "empty")}
HAS_FN = "present(state['store']) and present(old(state['store']).apply_deltas)"
NUMERIC = "(not is_none(old(state['version_etag'])) and int_parses(some(old(state['version_etag']))))"

R.contract(
    AP + "apply_changes", "C04",
    types={"ctx": "ApplyCtx", "state": "ApplyState", "t4": "T4Res"},
    ghost=GHOST,
    ensures=[
        ("batch-first-exactly-approved",
         "implies(" + HAS_FN + ", len(calls) >= 1 and calls[0][0] == 'g:surface' and seq_eq(calls[0][1], t4.approved_deltas))"),
        ("no-fallback-when-batch-ok", "implies(" + HAS_FN + " and oks[0], len(calls) == 1)"),
        ("fallback-one-by-one-each-once",
         "implies(" + HAS_FN + " and not oks[0], len(calls) == 1 + len(t4.approved_deltas) and "
         "forall(i, 1 <= i < len(calls), calls[i][0] == 'g:surface' and len(calls[i][1]) == 1 and "
         " calls[i][1][0] == t4.approved_deltas[i - 1]))"),
        ("no-store-no-calls", "implies(not (" + HAS_FN + "), len(calls) == 0)"),
        ("version-bumped-once",
         "state['version_etag'] == ite(" + NUMERIC + ", str(int_value(some(old(state['version_etag']))) + 1), '1') "
         "and result.version_etag == state['version_etag']"),
        ("invalidation-only-on-apply-mode",
         "implies(ctx.config.t4['cache_bust_mode'] != 'on-apply' or not present(state['_cache_mgr']) or not (" + HAS_FN + "), len(inval) == 0)"),
        ("invalidation-in-order-prefix",
         "len(inval) <= len(ctx.config.t4['cache']['namespaces']) and "
         "forall(i, 0 <= i < len(inval), inval[i] == ctx.config.t4['cache']['namespaces'][i])"),
        # the property: "invalidates the configured cache namespaces when cache busting is on" -- on every committed turn,
        # whatever the store calls answered (a raising store does not mean an unchanged store: a non-atomic batch may have
        # written before it raised); only a raising cache manager may cut the walk short
        ("invalidation-complete-in-on-apply-mode",
         "implies(ctx.config.t4['cache_bust_mode'] == 'on-apply' and present(state['_cache_mgr']) and (" + HAS_FN + ") and "
         "len(inval_err) == 0, len(inval) == len(ctx.config.t4['cache']['namespaces']))"),
        ("snapshot-on-cadence",
         "len(snaps) == ite(ctx.turn_id % ite(ctx.config.t4['snapshot_every_n_turns'] > 1, ctx.config.t4['snapshot_every_n_turns'], 1) == 0, 1, 0)"),
        ("snapshot-carries-new-version", "implies(len(snaps) == 1, snaps[0][0] == state['version_etag'])"),
        ("approved-untouched", "seq_eq(t4.approved_deltas, old(t4.approved_deltas))"),
    ],
    # (a false probe such as implies(len(calls) >= 2, len(t4.approved_deltas) == 0) must NOT be provable: selftest)
    raises="none",
    loops={
        0: {"inv": ["len(calls) == 1 + _i and len(oks) == 1 + _i",
                    "forall(j, 1 <= j < 1 + _i, calls[j][0] == 'g:surface' and len(calls[j][1]) == 1 and calls[j][1][0] == deltas[j - 1])",
                    "calls[0][0] == 'g:surface' and seq_eq(calls[0][1], deltas) and not oks[0]",
                    "len(inval) == 0 and len(snaps) == 0 and len(inval_err) == 0"]},
        1: {"inv": ["len(inval) == _i", "len(inval_err) == 0", "forall(j, 0 <= j < _i, inval[j] == _iter[j])", "len(snaps) == 0",
                    "len(calls) == len(pre_loop(calls)) and len(oks) == len(pre_loop(oks))",
                    "forall(j, 0 <= j < len(calls), calls[j] == pre_loop(calls)[j])",
                    "forall(j, 0 <= j < len(oks), oks[j] == pre_loop(oks)[j])"]},
    },
    locals={"applied_count": "int", "clamp_count": "int", "invalidated": "int"},
)

R.contract(
    AP + "_bump_version_etag", "C04",
    types={"state": "ApplyState"},
    ensures=[("plus-one-or-restart",
              "result == ite(" + NUMERIC + ", str(int_value(some(old(state['version_etag']))) + 1), '1') and "
              "state['version_etag'] == result")],
    raises="none", callee=False,
)

R.dictrec("SnapCfg", {"snapshot_every_n_turns": "int"})
R.contract(
    AP + "_should_snapshot", "C04",
    unreachable_ok=['turn = 0'],   # `turn = 0` in `except Exception`: int() of an int turn id cannot raise
    types={"ctx": "ApplyCtx", "cfg": "SnapCfg"},
    ensures=[("cadence", "result == (ctx.turn_id % ite(cfg['snapshot_every_n_turns'] > 1, cfg['snapshot_every_n_turns'], 1) == 0)")],
    raises="none", callee=False,
)
