"""C07: the delta branch of load_latest_snapshot (region contract).  Loaded through contracts/c07_delta.py."""
import ast
from pyvc.verifier import REG as R
from contracts.c07_delta import SNAP, SD, FIND, RHP, AD, _GH, _JOIN_AX, _found, _pay


def _delta_branch(fn):
    out = []
    for n in ast.walk(fn):
        if isinstance(n, ast.If) and "header.get('mode') == 'delta'" in ast.unparse(n.test):
            out.append(n)
    return sorted(out, key=lambda n: n.lineno)[:1]


R.region("delta-branch", _delta_branch)
_HD = "some(header)"
_ISD = "(not is_none(header) and ('mode' in " + _HD + ") and " + _HD + "['mode'] == 'delta')"
_OF = ("ite(('delta_of' in " + _HD + ") and len(" + _HD + "['delta_of']) > 0, " + _HD + "['delta_of'], "
       "ite(('etag_from' in " + _HD + "), " + _HD + "['etag_from'], 'None'))")
_BST = "('snapshot-' + " + _OF + " + '.full')"
_BD = "os_dirname(path)"
R.dictshape("C07LHdr", optional={"mode": "str", "etag_to": "str", "delta_of": "str", "etag_from": "str"})
R.contract(
    SNAP + "load_latest_snapshot#delta-branch", "C07", name="load_latest_snapshot/delta-branch", callee=False,
    types={"header": "Optional[C07LHdr]", "data": "Json", "path": "str"},
    ghost=_GH, funcs={SNAP + "_find_snapshot_file": FIND, SNAP + "_read_header_payload": RHP, SD + "apply_delta": AD}, axioms=_JOIN_AX,
    requires=[("delta-headers-name-their-baseline",
               "implies(%s, (('delta_of' in %s) and len(%s['delta_of']) > 0) or (('etag_from' in %s) and len(%s['etag_from']) > 0))" % (
                   _ISD, _HD, _HD, _HD, _HD))],
    ensures=[
        ("full-or-legacy-body-is-used-as-is", "implies(not %s, is_none(result) and data == old(data))" % _ISD),
        ("delta-with-baseline-present-is-reconstructed-from-that-baseline",
         "implies(%s and %s, is_none(result) and data == applyd(%s, j_or_empty(old(data))))" % (_ISD, _found(_BD, _BST), _pay(_BD, _BST))),
        # "when the baseline is missing ... report absence instead of returning a wrongly reconstructed state"
        ("delta-without-baseline-reports-absence",
         "implies(%s and not %s, not is_none(result) and result['loaded'] == False and is_none(result['version_etag']))" % (_ISD, _found(_BD, _BST))),
    ],
    raises="none",
    # the `except Exception` handler around the reconstruction: the callee contracts used here do not raise
    unreachable_ok=["return {'loaded': False, 'path': path, 'version_etag': None}"],
)
