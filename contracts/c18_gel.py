"""C18 -- GEL edge weights stay bounded, decay monotonically, keys canonical  (clematis/engine/gel.py)

Store model (type invariant of the inputs, DESIGN.md section 3 "C18"):
  state.graph = {"nodes": Dict[str, NodeRec], "edges": Dict[str, EdgeRec], "meta": GelMeta}   is attached to the state;
  edge records are dicts with the fixed keys of the layout comment at the top of gel.py; they live *by value* in
  the map (R.mutrec: z3 datatype + write-back through `origin`, i.e. records are not shared between two keys);
  weights are reals (A-REAL: no NaN/inf, no rounding);
  ctx.config["graph"] is the *normalised* dict produced by configs/validate.py (every key present), its value
  ranges are exactly the ones the validator enforces (named `requires` "validator-ranges").

  `state.graph` present, `meta` carries all its keys (as after _ensure_graph_store has run once).

Engine additions made for this file (pyvc): R.mutrec / values.TMutRec (by-value mutable dict records with alias
write-back), structural == on such records, eta-reduction of unmodified stored containers, `for k, rec in m.items()`
yields the current value with its origin, loop mod-set follows aliases bound inside the loop body
(modset.alias_sources), cut-point keys `var@k` and directives check:/forget-axioms:/abstract:/forget:, retries of
`unknown` goals on subsets of the hypotheses (core.Path._sliced_prove), contract option abstract_str_order,
triggers for filter comprehensions over mapped lists, posts are never assumed after a failed/unknown verdict.

Not covered here (see final report): NaN scores (floats are reals), the 2-run clause "result independent of the order of
items" (follows informally from the selection obligations when (id, score) pairs are distinct), merge_candidates /
split_candidates (graph search; not in the anchors of C18).
"""
from pyvc.verifier import REG as R

GEL = "clematis/engine/gel.py:"

# ------------------------------------------------------------------------------------------------ types
R.mutrec("EdgeAttrs", {"coact": "int", "last_seen_turn": "Optional[int]"})
R.mutrec("EdgeRec", {"id": "str", "src": "str", "dst": "str", "weight": "float", "rel": "str",
                     "updated_at": "Optional[str]", "attrs": "EdgeAttrs"})
R.mutrec("NodeAttrs", {"kind": "str"})
R.mutrec("NodeRec", {"id": "str", "label": "str", "attrs": "NodeAttrs"})
R.mutrec("MergeRec", {"nodes": "List[str]", "size": "int", "avg_w": "float", "diameter": "int", "signature": "str"})
R.mutrec("SplitRec", {"original": "List[str]", "parts": "List[List[str]]", "removed_edges": "int", "orig_edges": "int",
                      "signature": "str"})
R.dictrec("GelMeta", {"schema": "str", "merges": "List[MergeRec]", "splits": "List[SplitRec]", "promotions": "List[str]",
                      "concept_nodes_count": "int", "edges_count": "int"})
R.dictrec("GelStore", {"nodes": "Dict[str, NodeRec]", "edges": "Dict[str, EdgeRec]", "meta": "GelMeta"})
R.objtype("GelState", {"graph": "GelStore"})

R.dictrec("GelUpdCfg", {"mode": "str", "alpha": "float", "clamp_min": "float", "clamp_max": "float"})
R.dictrec("GelDecayCfg", {"half_life_turns": "int", "floor": "float"})
R.dictrec("GelMergeCfg", {"enabled": "bool", "min_size": "int", "min_avg_w": "float", "max_diameter": "int", "cap_per_turn": "int"})
R.dictrec("GelSplitCfg", {"enabled": "bool", "weak_edge_thresh": "float", "min_component_size": "int", "cap_per_turn": "int"})
R.dictrec("GelPromoCfg", {"enabled": "bool", "label_mode": "str", "topk_label_ids": "int", "attach_weight": "float",
                          "cap_per_turn": "int"})
R.dictrec("GelGraphCfg", {"enabled": "bool", "coactivation_threshold": "float", "observe_top_k": "int",
                          "pair_cap_per_obs": "int", "update": "GelUpdCfg", "decay": "GelDecayCfg",
                          "merge": "GelMergeCfg", "split": "GelSplitCfg", "promotion": "GelPromoCfg"})
R.dictrec("GelConfig", {"graph": "GelGraphCfg"})
R.objtype("GelCtx", {"config": "GelConfig"})

G = "ctx.config['graph']"
VALIDATOR = (
    "0 <= {G}['coactivation_threshold'] and {G}['coactivation_threshold'] <= 1 and {G}['observe_top_k'] >= 1 and "
    "{G}['pair_cap_per_obs'] >= 0 and ({G}['update']['mode'] == 'additive' or {G}['update']['mode'] == 'proportional') and "
    "{G}['update']['alpha'] > 0 and {G}['update']['clamp_min'] < {G}['update']['clamp_max'] and "
    "{G}['decay']['half_life_turns'] >= 1 and {G}['decay']['floor'] >= 0 and "
    "{G}['decay']['floor'] <= {G}['update']['clamp_max'] and "
    "-1 <= {G}['promotion']['attach_weight'] and {G}['promotion']['attach_weight'] <= 1 and "
    "{G}['promotion']['topk_label_ids'] >= 1").format(G=G)

# ------------------------------------------------------------------------------------------------ _edge_key / _clamp
# callers see the key only as ekeyf(src, dst) of the ordered pair; the concrete spelling src + "→" + dst is an
# obligation of _edge_key's own contract (string concatenation stays out of the callers' goals)
R.uf("ekeyf", ["str", "str"], "str")
AX_EKEY = ["forall((s, 'str'), True, forall((d, 'str'), True, ekeyf(s, d) == s + '→' + d))"]

R.contract(
    GEL + "_edge_key", "C18",
    types={"a": "str", "b": "str"},
    returns="Tuple[str, str, str]",
    axioms=AX_EKEY,
    ensures=[
        ("src-le-dst", "result[1] <= result[2]"),
        ("endpoints-are-the-pair", "result[1] == ite(a <= b, a, b) and result[2] == ite(a <= b, b, a)"),
        ("key-of-ordered-pair", "result[0] == ekeyf(result[1], result[2])"),
        ("key-spelling", "result[0] == result[1] + '→' + result[2]", "noexport"),
        ("key-is-ekey", "result[0] == ekey(a, b)"),
    ],
    raises="none",
)
# symmetry: the same triple for (a, b) and (b, a) -- a 2-run property, stated on the spec function the contract
# above ties the code to (ekey / esrc / edst are defined in specs.py)
R.contract(
    GEL + "_edge_key", "C18", name="_edge_key[symmetric]", callee=False,
    types={"a": "str", "b": "str"},
    returns="Tuple[str, str, str]",
    axioms=AX_EKEY,
    ensures=[("undirected", "result[0] == ekey(b, a) and result[1] == esrc(b, a) and result[2] == edst(b, a)")],
    raises="none",
)

R.contract(
    GEL + "_clamp", "C18",
    types={"x": "float", "lo": "float", "hi": "float"},
    returns="float",
    ensures=[("within-bounds", "implies(lo <= hi, lo <= result and result <= hi)"),
             ("identity-inside", "implies(lo <= x and x <= hi, result == x)")],
    pure_result="clampf(x, lo, hi)",
    raises="none",
)

# observe_retrieval is verified for items given as (id, score) tuples (input-shape invariant of that contract); the
# adapter's other accepted shapes (dict with id/score, object with .id/.score) are covered by its own variants below:
# all of them yield the same (str id, float score) pair.  Shapes not covered: dicts keyed episode_id/node_id/target_id
# or similarity, objects without score, the repr() fallback.
ITEMS = "List[Tuple[str, float]]"
R.contract(
    GEL + "_as_id_score", "C18",
    types={"item": "Tuple[str, float]"},
    returns="Tuple[str, float]",
    ensures=[],
    pure_result="(item[0], item[1])",
    raises="none",
    unreachable_ok=["if isinstance(item, dict)", "for idk in", "return (repr(item), 0.0)"],   # other input shapes
)
R.dictrec("ItemDict", {"id": "str", "score": "float"})
R.contract(
    GEL + "_as_id_score", "C18", name="_as_id_score[dict]", callee=False,
    types={"item": "ItemDict"},
    returns="Tuple[str, float]",
    ensures=[("id-and-score", "result[0] == item['id'] and result[1] == item['score']")],
    raises="none",
    unreachable_ok=["return (str(item[0]), float(item[1]))", "for k in", "for idk in", "return (repr(item), 0.0)"],
)
R.objtype("ItemObj", {"id": "str", "score": "float"})
R.contract(
    GEL + "_as_id_score", "C18", name="_as_id_score[object]", callee=False,
    types={"item": "ItemObj"},
    returns="Tuple[str, float]",
    ensures=[("id-and-score", "result[0] == item.id and result[1] == item.score")],
    raises="none",
    unreachable_ok=["return (str(item[0]), float(item[1]))", "if 'id' in item", "for k in", "if hasattr(item, 'similarity')",
                    "return (repr(item), 0.0)"],
)

# ------------------------------------------------------------------------------------------------ tick
E = "state.graph['edges']"
OE = "old(state.graph['edges'])"
META_SAME = ("seq_eq(state.graph['meta']['merges'], old(state.graph['meta']['merges'])) and "
             "seq_eq(state.graph['meta']['splits'], old(state.graph['meta']['splits'])) and "
             "seq_eq(state.graph['meta']['promotions'], old(state.graph['meta']['promotions'])) and "
             "state.graph['meta']['concept_nodes_count'] == old(state.graph['meta']['concept_nodes_count']) and "
             "state.graph['meta']['schema'] == old(state.graph['meta']['schema'])")
NODES_SAME = "seq_eq(state.graph['nodes'], old(state.graph['nodes']))"
ENABLED = G + "['enabled']"
FLOOR = G + "['decay']['floor']"

# x * t with two symbolic reals is the uninterpreted `mulr`; the only arithmetic fact needed (a factor in (0,1]
# never increases a magnitude) is a ghost lemma proved over true real arithmetic (R.lemma "decay_arith")
R.ghostfun("lemma_decay_shrinks", ["t"], requires=["0 < t", "t <= 1"],
           ensures=["forall((x, 'float'), True, absr(x * t) <= absr(x))"])
R.ghostfun("lemma_div_nonneg", ["a", "b"], requires=["a >= 0", "b > 0"], ensures=["a / b >= 0"])


def _decay_arith():
    import z3
    x, t, a, b = z3.Reals("x t a b")
    ab = lambda e: z3.If(e >= 0, e, -e)
    return [("scale_shrinks", [0 < t, t <= 1], ab(x * t) <= ab(x)),
            ("div_nonneg", [a >= 0, b > 0], a / b >= 0)]


R.lemma("decay_arith", "C18", _decay_arith)

R.contract(
    GEL + "tick", "C18",
    types={"ctx": "GelCtx", "state": "GelState", "decay_dt": "int", "turn": "Optional[int]", "agent": "Optional[str]"},
    ghost={"gfac": ("float", "any")},
    requires=[("validator-ranges", VALIDATOR)],
    ensures=[
        ("gate-off-state-untouched",
         "implies(not " + ENABLED + ", seq_eq(" + E + ", " + OE + ") and " + NODES_SAME + " and " + META_SAME + " and "
         "state.graph['meta']['edges_count'] == old(state.graph['meta']['edges_count']) and "
         "result['decayed_edges'] == 0 and result['dropped_edges'] == 0)"),
        ("no-key-added", "forall((k, 'str'), k in " + E + ", k in " + OE + ")"),
        ("removed-iff-below-floor",
         "implies(" + ENABLED + ", forall((k, 'str'), k in " + OE + ", (k in " + E + ") == "
         "(not below_floor(" + OE + "[k], gfac, " + FLOOR + "))))"),
        ("survivors-decayed-by-factor",
         "implies(" + ENABLED + ", forall((k, 'str'), k in " + E + ", " + E + "[k] == ticked_rec(" + OE + "[k], gfac, turn)))"),
        ("magnitude-never-increases",
         "forall((k, 'str'), k in " + E + ", absr(" + E + "[k]['weight']) <= absr(" + OE + "[k]['weight']))"),
        ("edges-count-exact", "implies(" + ENABLED + " and len(" + OE + ") > 0, state.graph['meta']['edges_count'] == len(" + E + "))"),
        ("nothing-else-changed", NODES_SAME + " and " + META_SAME),
        ("dropped-metric-exact", "result['dropped_edges'] == len(" + OE + ") - len(" + E + ") and result['decayed_edges'] >= 0 "
                                 "and result['decayed_edges'] + result['dropped_edges'] <= len(" + OE + ")"),
    ],
    raises="none",
    asserts={"decay_factor": [
        "ghost:lemma_div_nonneg(float(dt), half_life)",
        "0 < decay_factor and decay_factor <= 1",          # obligation tick/assert-after:decay_factor#1 (factor in (0,1])
        "ghost:gfac = decay_factor",
        "ghost:lemma_decay_shrinks(decay_factor)",
    ]},
    loops={
        0: {"inv": [
            "forall((k, 'str'), True, (k in edges) == pre_loop(k in edges))",
            "len(edges) == len(pre_loop(edges))",
            "forall((k, 'str'), k in edges, edges[k] == ite(k in _done and not below_floor(pre_loop(edges)[k], decay_factor, floor), "
            "  ticked_rec(pre_loop(edges)[k], decay_factor, turn), pre_loop(edges)[k]))",
            "len(to_delete) == dropped and dropped >= 0 and decayed >= 0 and decayed + dropped <= len(_done)",
            "forall(t, 0 <= t < len(to_delete), to_delete[t] in _done and below_floor(pre_loop(edges)[to_delete[t]], decay_factor, floor))",
            "distinct_seq(to_delete)",
            # last on purpose: index->key (above) and key->index (this one) quantifiers feed each other's triggers
            "forall((k, 'str'), k in _done and below_floor(pre_loop(edges)[k], decay_factor, floor), "
            "  exists(t, 0 <= t < len(to_delete), to_delete[t] == k))",
        ]},
        1: {"inv": [
            "forall((k, 'str'), True, (k in edges) == (pre_loop(k in edges) and not exists(t, 0 <= t < _i, to_delete[t] == k)))",
            "forall((k, 'str'), k in edges, edges[k] == pre_loop(edges)[k])",
            "len(edges) == len(pre_loop(edges)) - _i",
        ]},
    },
    locals={"to_delete": "List[str]", "dropped": "int", "decayed": "int"},
    # `if half_life <= 0: decay_factor = 0.0` is dead under the validator range half_life_turns >= 1
    unreachable_ok=["decay_factor = 0.0"],
)

# ------------------------------------------------------------------------------------------------ observe_retrieval
THR = G + "['coactivation_threshold']"
TOPK = G + "['observe_top_k']"
PCAP = G + "['pair_cap_per_obs']"
CMIN = G + "['update']['clamp_min']"
CMAX = G + "['update']['clamp_max']"
RANK = "(0 - {x}[1], {x}[0])"          # the sort key (-score, id)


def _used_facts(u):
    """`u` is the list of the first top_k items with score >= threshold under the order (-score, id)"""
    return [
        "len({u}) <= top_k".format(u=u),
        "forall(i, 0 <= i < len({u}), {u}[i][1] >= threshold and exists(j, 0 <= j < len(items), items[j] == {u}[i]))".format(u=u),
        ("forall2(i, j, 0 <= i and i < j and j < len({u}), " + RANK.format(x="{u}[i]") + " <= " + RANK.format(x="{u}[j]") + ")").format(u=u),
        ("forall(j, 0 <= j < len(items) and items[j][1] >= threshold, exists(m, 0 <= m < len({u}), {u}[m] == items[j]) or "
         "(len({u}) == top_k and forall(m, 0 <= m < len({u}), " + RANK.format(x="{u}[m]") + " <= " + RANK.format(x="items[j]") + ")))").format(u=u),
    ]


USED_POST = [c.replace("top_k", TOPK).replace("threshold", THR) for c in _used_facts("gused")]

# frame of the pair loops, stated against the entry state OE (valid for both loops: `old` is the function entry)
PAIR = "exists(a, 0 <= a < len({u}), exists(b, a < b and b < len({u}), k == ekey({u}[a][0], {u}[b][0])))"
UNCH = "(k in " + OE + " and {e}[k] == " + OE + "[k])"
FRAME = {
    "no-key-removed": "forall((k, 'str'), k in " + OE + ", k in {e})",
    "only-pairs-among-used-touched": "forall((k, 'str'), k in {e}, " + UNCH + " or " + PAIR + ")",
    "written-weights-within-clamp": "forall((k, 'str'), k in {e}, " + UNCH + " or ({lo} <= {e}[k]['weight'] and {e}[k]['weight'] <= {hi}))",
    "existing-records-keep-identity":
        "forall((k, 'str'), k in {e} and k in " + OE + ", {e}[k]['id'] == " + OE + "[k]['id'] and {e}[k]['src'] == " + OE + "[k]['src'] and "
        "{e}[k]['dst'] == " + OE + "[k]['dst'] and {e}[k]['rel'] == " + OE + "[k]['rel'] and {e}[k]['updated_at'] == " + OE + "[k]['updated_at'] and "
        "{e}[k]['attrs']['coact'] >= " + OE + "[k]['attrs']['coact'])",
    "new-records-canonical":
        "forall((k, 'str'), k in {e} and not (k in " + OE + "), {e}[k]['id'] == k and k == ekeyf({e}[k]['src'], {e}[k]['dst']) and "
        "{e}[k]['src'] <= {e}[k]['dst'] and {e}[k]['rel'] == 'coact' and is_none({e}[k]['updated_at']) and {e}[k]['attrs']['coact'] >= 1)",
}
FRAME_ORDER = ["no-key-removed", "written-weights-within-clamp", "existing-records-keep-identity", "new-records-canonical",
               "only-pairs-among-used-touched"]


def _frame(e, u, lo, hi):
    return [FRAME[n].format(e=e, u=u, lo=lo, hi=hi) for n in FRAME_ORDER]


COUNT_INV = "cap_left == pair_cap - pairs_updated and pairs_updated >= 0 and cap_left >= 0"
# pairs visited so far <= number of pairs (a, b), a < b, with a < i (plus the b's already seen in row i): with
# n = len(used) and r = n - i rows left,  2 * pairs + r * (r - 1) <= n * (n - 1)
TRI_OUTER = "2 * pairs_updated + (len(used) - _a) * (len(used) - _a - 1) <= len(used) * (len(used) - 1)"
TRI_INNER = "2 * pairs_updated + (len(used) - i) * (len(used) - i - 1) <= len(used) * (len(used) - 1) + 2 * _b"

R.contract(
    GEL + "observe_retrieval", "C18",
    types={"ctx": "GelCtx", "state": "GelState", "items": ITEMS, "turn": "Optional[int]", "agent": "Optional[str]"},
    ghost={"gused": (ITEMS, "empty")},
    requires=[("validator-ranges", VALIDATOR)],
    ensures=[
        ("gate-off-state-untouched",
         "implies(not " + ENABLED + ", seq_eq(" + E + ", " + OE + ") and " + NODES_SAME + " and " + META_SAME + " and "
         "state.graph['meta']['edges_count'] == old(state.graph['meta']['edges_count']) and "
         "result['pairs_updated'] == 0 and result['k_used'] == 0)"),
        ("metrics", "implies(" + ENABLED + ", result['k_used'] == len(gused) and result['k_in'] == len(items))"),
        ("pairs-within-cap", "0 <= result['pairs_updated'] and result['pairs_updated'] <= " + PCAP),
        ("pairs-at-most-all-pairs-of-used", "2 * result['pairs_updated'] <= result['k_used'] * (result['k_used'] - 1)"),
        ("items-untouched", "seq_eq(items, old(items))"),
        ("nothing-else-changed", NODES_SAME + " and " + META_SAME +
         " and state.graph['meta']['edges_count'] == old(state.graph['meta']['edges_count'])"),
    ] + [(n, FRAME[n].format(e=E, u="gused", lo=CMIN, hi=CMAX)) for n in FRAME_ORDER],
    raises="none",
    # The selection claims ("used = the first top_k of the items with score >= threshold under (-score, id)") are the
    # named obligations observe_retrieval/assert-after:used#0..#3: proved at the cut point right after
    # `used = norm[:top_k]` against the engine's exact encodings of the comprehensions / sort / slice, on every path
    # that gets there (every gate-on path).  They are *not* kept as hypotheses, and the defining axioms of `used`
    # are dropped from the path condition afterwards (the pair loops only need `used` as an arbitrary list; with the
    # comprehension + permutation + order axiom families in scope every loop obligation costs z3 > 10 s).
    asserts={"used": ["check:" + c for c in _used_facts("used")] + ["ghost:gused = used", "forget-axioms:used"]},
    loops={
        0: {"index": "_a", "inv": [COUNT_INV, TRI_OUTER] + _frame("edges", "used", "clamp_min", "clamp_max")},
        1: {"index": "_b", "inv": [COUNT_INV, TRI_INNER] + _frame("edges", "used", "clamp_min", "clamp_max")},
    },
    locals={"norm": ITEMS, "used": ITEMS, "pairs_updated": "int", "cap_left": "int"},
    abstract_str_order=True,   # ids are only ever compared: their order is an arbitrary total order here (see interp.abstract_str_le)
)

# ---- NaN scores (the property quantifies over them; the contract above models scores as reals).  Same function on
# an item list of fixed shape [(ia, nan), (ib, sb)] with symbolic ids and a symbolic real second score: the NaN item
# is never used -- nan >= threshold is False -- so at most one item is used, no pair is formed, no edge is written.
R.contract(
    GEL + "observe_retrieval", "C18", name="observe_retrieval[nan-score]", callee=False,
    types={"ctx": "GelCtx", "state": "GelState", "items": "=[(g_ia, nan()), (g_ib, g_sb)]", "turn": "Optional[int]", "agent": "Optional[str]"},
    ghost={"g_ia": ("str", "any"), "g_ib": ("str", "any"), "g_sb": ("float", "any")},
    requires=[("validator-ranges", VALIDATOR)],
    ensures=[
        ("nan-scored-item-is-never-used", "result['k_used'] <= 1 and result['pairs_updated'] == 0"),
        ("no-edge-written", "seq_eq(" + E + ", " + OE + ")"),
        ("k-in-counts-both", "implies(" + ENABLED + ", result['k_in'] == 2)"),
    ],
    raises="none",
    loops={
        0: {"index": "_a", "inv": ["pairs_updated == 0 and cap_left == pair_cap", "len(used) <= 1", "seq_eq(edges, old(" + E + "))"]},
        1: {"index": "_b", "inv": ["pairs_updated == 0 and cap_left == pair_cap", "len(used) <= 1", "seq_eq(edges, old(" + E + "))"]},
    },
    locals={"norm": ITEMS, "used": ITEMS, "pairs_updated": "int", "cap_left": "int"},
    abstract_str_order=True,
    # at most one item is used: the body of the inner pair loop is dead here
    unreachable_ok=["if cap_left <= 0:", "break", "idb, sb = used[j]", "key, src, dst = _edge_key", "rec = edges.get(key)", "if rec is None:",
                    "rec = {", "edges[key] = rec", "w = ", "if mode == ", "inc = ", "rec[", "attrs", "if turn is not None", "pairs_updated += 1",
                    "cap_left -= 1"],
)

# ------------------------------------------------------------------------------------------------ history lemma
def _bounded_under_history():
    """L bounded-under-history: `every edge weight lies in [clamp_min, clamp_max]` as an invariant of histories over
    {observe, tick}, from the per-call clauses proved above:
      observe : a record is either unchanged or its weight is inside the clamp   (written-weights-within-clamp)
      tick    : a surviving weight is w * factor with 0 < factor <= 1            (survivors-decayed-by-factor, factor)
    The tick step only preserves the invariant when the clamp interval contains 0; the validator
    (configs/validate.py, graph.update) accepts any clamp_min < clamp_max.  The last goal states the step for exactly
    the validator-accepted configurations and is refuted: a real finding (native reproduction:
    replay_builders/c18_bounded_under_history.py -- clamp [0.5, 0.9], one observe gives 0.5, one tick 0.49827)."""
    import z3
    w, w2, f, lo, hi = z3.Reals("w w2 factor clamp_min clamp_max")
    inside = lambda x: z3.And(lo <= x, x <= hi)
    return [
        ("observe_step_preserves", [lo < hi, inside(w), z3.Or(w2 == w, inside(w2))], inside(w2)),
        ("new_edge_starts_inside", [lo < hi, inside(w2)], inside(w2)),
        ("tick_step_preserves_when_clamp_contains_zero", [lo <= 0, 0 <= hi, inside(w), 0 < f, f <= 1, w2 == w * f], inside(w2)),
        ("tick_step_preserves_for_validator_accepted_clamp", [lo < hi, inside(w), 0 < f, f <= 1, w2 == w * f], inside(w2)),
    ]


R.lemma("bounded_under_history", "C18", _bounded_under_history)

# ------------------------------------------------------------------------------------------------ apply_merge / apply_split
R.dictrec("MergeCand", {"type": "str", "nodes": "List[str]", "size": "int", "avg_w": "float", "diameter": "int", "signature": "str"})
R.dictrec("SplitCand", {"type": "str", "original": "List[str]", "parts": "List[List[str]]", "removed_edges": "int",
                        "orig_edges": "int", "signature": "str"})
M = "state.graph['meta']"
EDGES_NODES_SAME = "seq_eq(" + E + ", " + OE + ") and " + NODES_SAME
ML = M + "['merges']"
OML = "old(" + M + "['merges'])"
SL = M + "['splits']"
OSL = "old(" + M + "['splits'])"

R.contract(
    GEL + "apply_merge", "C18",
    types={"ctx": "GelCtx", "state": "GelState", "cluster": "MergeCand"},
    ensures=[
        ("gate-off-state-untouched", "implies(not " + ENABLED + ", seq_eq(" + ML + ", " + OML + ") and result['size'] == 0)"),
        ("graph-untouched", EDGES_NODES_SAME),
        ("annotation-appended-only",
         "implies(" + ENABLED + ", len(" + ML + ") == len(" + OML + ") + 1 and forall(i, 0 <= i < len(" + OML + "), " + ML + "[i] == " + OML + "[i]))"),
        ("annotation-is-the-cluster",
         "implies(" + ENABLED + ", seq_eq(" + ML + "[len(" + OML + ")]['nodes'], cluster['nodes']) and "
         + ML + "[len(" + OML + ")]['size'] == cluster['size'] and " + ML + "[len(" + OML + ")]['avg_w'] == cluster['avg_w'] and "
         + ML + "[len(" + OML + ")]['diameter'] == cluster['diameter'] and " + ML + "[len(" + OML + ")]['signature'] == cluster['signature'])"),
        ("other-meta-untouched",
         "seq_eq(" + SL + ", " + OSL + ") and seq_eq(" + M + "['promotions'], old(" + M + "['promotions'])) and "
         + M + "['concept_nodes_count'] == old(" + M + "['concept_nodes_count']) and " + M + "['edges_count'] == old(" + M + "['edges_count'])"),
        ("cluster-untouched", "seq_eq(cluster['nodes'], old(cluster['nodes']))"),
    ],
    raises="none",
)

R.contract(
    GEL + "apply_split", "C18",
    types={"ctx": "GelCtx", "state": "GelState", "split": "SplitCand"},
    ensures=[
        ("gate-off-state-untouched", "implies(not " + ENABLED + ", seq_eq(" + SL + ", " + OSL + ") and result['parts'] == 0)"),
        ("graph-untouched", EDGES_NODES_SAME),
        ("annotation-appended-only",
         "implies(" + ENABLED + ", len(" + SL + ") == len(" + OSL + ") + 1 and forall(i, 0 <= i < len(" + OSL + "), " + SL + "[i] == " + OSL + "[i]))"),
        ("annotation-is-the-split",
         "implies(" + ENABLED + ", seq_eq(" + SL + "[len(" + OSL + ")]['original'], split['original']) and "
         "len(" + SL + "[len(" + OSL + ")]['parts']) == len(split['parts']) and "
         "forall(i, 0 <= i < len(split['parts']), seq_eq(" + SL + "[len(" + OSL + ")]['parts'][i], split['parts'][i])) and "
         + SL + "[len(" + OSL + ")]['removed_edges'] == split['removed_edges'] and "
         + SL + "[len(" + OSL + ")]['orig_edges'] == split['orig_edges'] and " + SL + "[len(" + OSL + ")]['signature'] == split['signature'] and "
         "result['parts'] == len(split['parts']) and result['removed_edges'] == split['removed_edges'])"),
        ("other-meta-untouched",
         "seq_eq(" + ML + ", " + OML + ") and seq_eq(" + M + "['promotions'], old(" + M + "['promotions'])) and "
         + M + "['concept_nodes_count'] == old(" + M + "['concept_nodes_count']) and " + M + "['edges_count'] == old(" + M + "['edges_count'])"),
        ("split-untouched", "seq_eq(split['original'], old(split['original'])) and len(split['parts']) == len(old(split['parts']))"),
    ],
    raises="none",
)

# ------------------------------------------------------------------------------------------------ apply_promotion
# apply_promotion creates edge records with "attrs": {} (no coact / last_seen_turn keys): for this function the attrs
# of an edge are modelled as a plain Dict[str, int] (it never reads them), node records as {"id","label","attrs":{"kind"}}
R.mutrec("PEdgeRec", {"id": "str", "src": "str", "dst": "str", "weight": "float", "rel": "str",
                      "updated_at": "Optional[str]", "attrs": "Dict[str, int]"})
R.mutrec("PNodeRec", {"id": "str", "label": "Optional[str]", "attrs": "NodeAttrs"})
R.dictrec("PGelStore", {"nodes": "Dict[str, PNodeRec]", "edges": "Dict[str, PEdgeRec]", "meta": "GelMeta"})
R.objtype("PGelState", {"graph": "PGelStore"})
R.dictrec("PromoRec", {"concept_id": "str", "label": "str", "members": "List[str]", "attach_weight": "float"})

N = "state.graph['nodes']"
ON = "old(state.graph['nodes'])"
CID = "promo['concept_id']"
AW = "promo['attach_weight']"
MEM = "promo['members']"
ATTACHED = "exists(t, 0 <= t < {n}, k == ekey({cid}, {mem}[t]))"
P_FRAME = [
    "forall((k, 'str'), k in " + OE + ", k in {e})",
    "forall((k, 'str'), k in {e}, (k in " + OE + " and {e}[k] == " + OE + "[k]) or " + ATTACHED + ")",
    "forall(t, 0 <= t < {n}, ekey({cid}, {mem}[t]) in {e} and {e}[ekey({cid}, {mem}[t])]['weight'] == {w} and "
    "{e}[ekey({cid}, {mem}[t])]['rel'] == 'concept')",
    "forall((k, 'str'), k in {e} and not (k in " + OE + "), {e}[k]['id'] == k and k == ekeyf({e}[k]['src'], {e}[k]['dst']) and "
    "{e}[k]['src'] <= {e}[k]['dst'] and {e}[k]['rel'] == 'concept' and {e}[k]['weight'] == {w} and is_none({e}[k]['updated_at']) "
    "and len({e}[k]['attrs']) == 0)",
    "forall((k, 'str'), k in {e} and k in " + OE + ", {e}[k]['id'] == " + OE + "[k]['id'] and {e}[k]['src'] == " + OE + "[k]['src'] and "
    "{e}[k]['dst'] == " + OE + "[k]['dst'] and {e}[k]['updated_at'] == " + OE + "[k]['updated_at'] and "
    "seq_eq({e}[k]['attrs'], " + OE + "[k]['attrs']))",
]
P_NAMES = ["no-edge-removed", "only-concept-member-edges-touched", "every-member-attached-with-weight", "new-edges-canonical",
           "existing-edges-keep-identity"]
PROMO_TYPES = {"ctx": "GelCtx", "state": "PGelState", "promo": "PromoRec"}

R.contract(
    GEL + "apply_promotion", "C18",
    types=PROMO_TYPES,
    requires=[("validator-ranges", VALIDATOR)],
    ensures=[
        ("gate-off-state-untouched",
         "implies(not " + ENABLED + ", seq_eq(" + E + ", " + OE + ") and " + NODES_SAME + " and " + META_SAME + " and "
         "state.graph['meta']['edges_count'] == old(state.graph['meta']['edges_count']) and result['members'] == 0)"),
        ("concept-node-upserted-only",
         "implies(" + ENABLED + ", " + CID + " in " + N + " and "
         "forall((k, 'str'), k != " + CID + ", (k in " + N + ") == (k in " + ON + ")) and "
         "forall((k, 'str'), k in " + ON + ", k in " + N + " and " + N + "[k] == " + ON + "[k]) and "
         "implies(not (" + CID + " in " + ON + "), " + N + "[" + CID + "]['id'] == " + CID + " and " + N + "[" + CID + "]['label'] == promo['label'] "
         "and " + N + "[" + CID + "]['attrs']['kind'] == 'concept'))"),
        ("concept-count-bumped-iff-new",
         "implies(" + ENABLED + ", state.graph['meta']['concept_nodes_count'] == old(state.graph['meta']['concept_nodes_count']) + "
         "ite(" + CID + " in " + ON + ", 0, 1))"),
        ("edges-count-exact", "implies(" + ENABLED + ", state.graph['meta']['edges_count'] == len(" + E + "))"),
        ("annotations-untouched",
         "seq_eq(" + ML + ", " + OML + ") and seq_eq(" + SL + ", " + OSL + ") and seq_eq(" + M + "['promotions'], old(" + M + "['promotions']))"),
        ("promo-untouched", "seq_eq(" + MEM + ", old(" + MEM + "))"),
    ] + [(nm, "implies(" + ENABLED + ", " + cl.format(e=E, n="len(" + MEM + ")", cid=CID, mem=MEM, w=AW) + ")")
         for nm, cl in zip(P_NAMES, P_FRAME)],
    raises="none",
    loops={0: {"inv": ["len(members) == len(promo['members'])", "forall(t, 0 <= t < len(members), members[t] == promo['members'][t])"]
               + [cl.format(e="edges", n="_i", cid="cid", mem="members", w="w") for cl in P_FRAME]}},
    locals={"members": "List[str]"},
    abstract_str_order=True,
)

# idempotence (2-run property, reduced to one run): the post-state of a promotion satisfies ALREADY below; from a state
# that satisfies it the same promotion changes nothing at all
ALREADY = (CID + " in " + N + " and forall(t, 0 <= t < len(" + MEM + "), ekey(" + CID + ", " + MEM + "[t]) in " + E + " and "
           + E + "[ekey(" + CID + ", " + MEM + "[t])]['weight'] == " + AW + " and " + E + "[ekey(" + CID + ", " + MEM + "[t])]['rel'] == 'concept') "
           "and state.graph['meta']['edges_count'] == len(" + E + ")")
R.contract(
    GEL + "apply_promotion", "C18", name="apply_promotion[idempotent]", callee=False,
    types=PROMO_TYPES,
    requires=[("validator-ranges", VALIDATOR), ("already-promoted", ALREADY)],
    ensures=[
        ("second-application-changes-nothing",
         "seq_eq(" + E + ", " + OE + ") and " + NODES_SAME + " and " + META_SAME + " and "
         "state.graph['meta']['edges_count'] == old(state.graph['meta']['edges_count'])"),
    ],
    raises="none",
    loops={0: {"inv": ["len(members) == len(promo['members'])", "forall(t, 0 <= t < len(members), members[t] == promo['members'][t])",
                       "forall((k, 'str'), True, (k in edges) == (k in " + OE + "))", "len(edges) == len(" + OE + ")",
                       "forall((k, 'str'), k in edges, edges[k] == " + OE + "[k])"]}},
    locals={"members": "List[str]"},
    abstract_str_order=True,
    # under `already-promoted` the node / edge creation branches are dead
    unreachable_ok=["nodes[cid] = ", "meta['concept_nodes_count'] = ", "rec = {", "edges[key] = rec"],
)

# ------------------------------------------------------------------------------------------------ promote_clusters
R.mutrec("ClusterRec", {"type": "str", "nodes": "List[str]", "size": "int", "avg_w": "float", "diameter": "int", "signature": "str"})
R.mutrec("PromoOut", {"concept_id": "str", "label": "str", "members": "List[str]", "attach_weight": "float"})
PAW = G + "['promotion']['attach_weight']"
PROMO_ELEM = ("len({p}['members']) > 0 and {p}['concept_id'] == 'c::' + {p}['members'][0] and "
              "{p}['attach_weight'] == clampf({aw}, 0 - 1, 1) and "
              "forall2(a, b, 0 <= a and a < b and b < len({p}['members']), {p}['members'][a] <= {p}['members'][b]) and "
              "implies({mode} != 'concat_k', {p}['label'] == {p}['members'][0])")

R.contract(
    GEL + "promote_clusters", "C18",
    types={"ctx": "GelCtx", "state": "GelState", "clusters": "List[ClusterRec]"},
    returns="List[PromoOut]",
    requires=[("validator-ranges", VALIDATOR)],
    ensures=[
        ("gate-off-nothing-proposed", "implies(not " + ENABLED + ", len(result) == 0)"),
        ("at-most-one-per-cluster", "len(result) <= len(clusters)"),
        ("sorted-by-concept-id", "forall2(i, j, 0 <= i and i < j and j < len(result), result[i]['concept_id'] <= result[j]['concept_id'])"),
        ("proposals-well-formed",
         "forall(i, 0 <= i < len(result), " + PROMO_ELEM.format(p="result[i]", aw=PAW, mode=G + "['promotion']['label_mode']") + ")"),
        ("pure", "seq_eq(" + E + ", " + OE + ") and " + NODES_SAME + " and " + META_SAME + " and "
                 "state.graph['meta']['edges_count'] == old(state.graph['meta']['edges_count']) and len(clusters) == len(old(clusters)) and "
                 "forall(i, 0 <= i < len(clusters), clusters[i] == old(clusters)[i])"),
    ],
    raises="none",
    loops={0: {"inv": ["len(promos) <= _i",
                       "forall(i, 0 <= i < len(promos), " + PROMO_ELEM.format(p="promos[i]", aw="attach_w", mode="mode") + ")"]}},
    locals={"promos": "List[PromoOut]", "nodes": "List[str]", "nodes_sorted": "List[str]"},
    # the local re-clamp of attach_weight to [-1, 1] is dead under the validator range -1 <= attach_weight <= 1
    unreachable_ok=["attach_w = 1.0", "attach_w = -1.0"],
    abstract_str_order=True,
)
