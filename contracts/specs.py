"""Spec helper functions (pure; used symbolically by the verifier and natively by the replay)."""


def spec(f):
    return f


# ---------------------------------------------------------------- C15: deterministic FIFO set / LRU

@spec
def distinct_seq(q):
    return forall2(i, j, 0 <= i and i < j and j < len(q), q[i] != q[j])


@spec
def wf_lruset(s):
    return (s.cap >= 0 and s.enabled == (s.cap > 0) and len(s._q) == len(s._set)
            and forall(i, 0 <= i < len(s._q), s._q[i] in s._set)
            and distinct_seq(s._q)
            and len(s._set) <= s.cap)


@spec
def wf_lrubytes(s):
    return (s.max_entries >= 0 and s.max_bytes >= 0
            and len(s._q) == len(s._map)
            and forall(i, 0 <= i < len(s._q), s._q[i] in s._map)
            and distinct_seq(s._q)
            and forall((k, 'Un[K]'), k in s._map, s._map[k][1] >= 0)
            and s._bytes == msum(s._map, 'cost')
            and implies(s.max_entries > 0, len(s._map) <= s.max_entries)
            and implies(s.max_bytes > 0, s._bytes <= s.max_bytes))


@spec
def moved_to_mru(q, oldq, key):
    """q is oldq with the (unique) occurrence of key moved to the end"""
    return (len(q) == len(oldq) and len(q) >= 1 and q[len(q) - 1] == key and
            exists(p, 0 <= p < len(oldq), oldq[p] == key
                   and forall(i, 0 <= i < p, q[i] == oldq[i])
                   and forall(i, p <= i < len(q) - 1, q[i] == oldq[i + 1])))


@spec
def wf_detlru(s):
    return (s.cap >= 0 and s.enabled == (s.cap > 0) and len(s._q) == len(s._map)
            and forall(i, 0 <= i < len(s._q), s._q[i] in s._map)
            and distinct_seq(s._q)
            and len(s._map) <= s.cap)


@spec
def wf_ring(s):
    return (s.k >= 0 and s.enabled == (s.k > 0) and len(s._q) <= s.k
            and forall((x, 'str'), x in s._ref, s._ref[x] > 0)
            and implies(not s.enabled, len(s._q) == 0 and len(s._ref) == 0))


# ---------------------------------------------------------------- C17: scheduler

@spec
def consec_of(sched, a):
    return sched["consec_turns"].get(a, 0)


@spec
def is_elig(sched, mct, a):
    return consec_of(sched, a) < mct


@spec
def tier_of(sched, now, aging_ms, a):
    return ite(aging_ms > 0, ite(now - sched["last_ran_ms"].get(a, 0) < 0, 0, now - sched["last_ran_ms"].get(a, 0)) // ite(aging_ms > 0, aging_ms, 1), 0)


@spec
def mct_of(cfg):
    return cfg.get("max_consecutive_turns", 1000000000)


@spec
def aging_of(cfg):
    return cfg.get("aging_ms", 200)


# ---------------------------------------------------------------- C03: meta-filter (t4)

@spec
def ckey_of(d):
    return ckey3(d.target_kind, d.target_id, d.attr)


@spec
def clip(x, c):
    return ite(x > c, c, ite(x < -c, -c, x))


@spec
def same_meta(a, b):
    return (a.target_kind == b.target_kind and a.target_id == b.target_id and a.attr == b.attr
            and a.op_idx == b.op_idx and a.idx == b.idx)


@spec
def absr(x):
    return ite(x >= 0, x, -x)


@spec
def opt_min(a, b):
    return ite(is_none(a), b, ite(is_none(b), a, ite(some(a) <= some(b), a, b)))


# ---------------------------------------------------------------- C11: retrieval

@spec
def ep_ts(e):
    """the timestamp string the index parses for an episode: e.get("ts") or "" """
    return ite("ts" in e and len(e["ts"]) > 0, e["ts"], "")


@spec
def hint_thr(h):
    """similarity threshold read from the search hints: missing or None means 0.0"""
    t = h.get("sim_threshold", 0.0)
    return ite(is_none(t), 0.0, some(t))


@spec
def fused_of(f, it):
    """f is the candidate dict `it` with an added score_fused (all original keys carried over unchanged)"""
    return f["id"] == it["id"] and f.get("score") == it.get("score") and f.get("text") == it.get("text")
# ---------------------------------------------------------------- C08: abstract file system (ghost `fs`)

@spec
def file_same(a, b, p):
    """file p is the same in file systems a and b (both absent, or both present with equal content)"""
    return ((p in a) == (p in b)) and implies(p in a, a[p] == b[p])


@spec
def file_is(a, p, data):
    return (p in a) and a[p] == data


@spec
def no_temp_left(a, tmps):
    return forall((q, 'str'), q in tmps, not (q in a))
# ---------------------------------------------------------------- C09: run_parallel

@spec
def par_merged_ok(m, tasks):
    """m lists every task's (key, result) exactly once, strictly ordered by (order_key(key), task index):
    p is the sorting permutation (strictly increasing in a strict order => injective => a bijection on [0, n))"""
    return (len(m) == len(tasks) and exists_fn(p,
            forall(j, 0 <= j < len(m), 0 <= p(j) and p(j) < len(tasks) and m[j][0] == tasks[p(j)][0]
                   and m[j][1] == task_res(p(j)))
            and forall2(a, b, 0 <= a and a < b and b < len(m),
                        (okey(tasks[p(a)][0]), p(a)) < (okey(tasks[p(b)][0]), p(b)))))


@spec
def par_errors_ok(L, tasks, started):
    """L reports exactly the failed tasks among the `started` first ones, each once (key, exception type name,
    message), strictly ordered by (order_key(key), task index)"""
    return exists_fn(q,
                     forall(t, 0 <= t < len(L), 0 <= q(t) and q(t) < started and task_fails(q(t))
                            and L[t].key == tasks[q(t)][0] and L[t].exc_type == task_exc_type(q(t))
                            and L[t].message == task_exc_msg(q(t)))
                     and forall2(a, b, 0 <= a and a < b and b < len(L),
                                 (okey(tasks[q(a)][0]), q(a)) < (okey(tasks[q(b)][0]), q(b)))
                     and forall(i, 0 <= i < started and task_fails(i), exists(t, 0 <= t < len(L), q(t) == i)))


# ---------------------------------------------------------------- C09: shard merge (hit dicts as dict-like records)

@spec
def hit_score(h):
    return ite(h.has_score, h.score, ite(h.has__score, h._score, 0.0))


@spec
def hit_id(h):
    return ite(h.has_id, h.id, 'None')


@spec
def hit_key(h):
    return (0 - qscore_of(hit_score(h)), hit_id(h))


# ---------------------------------------------------------------- C12: propagation

@spec
def node_tags(n):
    """the tag list the seeder reads from a node: n.attrs.get("tags", [])"""
    return n.attrs.get("tags", [])
# ---------------------------------------------------------------- C16 / C10: log normalisation, staging, writers

@spec
def ci_on():
    return env_get("CI", "").lower() == "true"


@spec
def is_identity_log(name):
    return (name == "t1.jsonl" or name == "t2.jsonl" or name == "t4.jsonl" or name == "apply.jsonl"
            or name == "turn.jsonl")


@spec
def zero_ms(rec):
    return ite("ms" in rec, map_put(rec, "ms", jv(0.0)), rec)


@spec
def zero_durations(o):
    return ite("durations_ms" in o and jv_is_dict(o["durations_ms"]),
               map_put(o, "durations_ms", jv({k: 0.0 for k in jv_dict(o["durations_ms"]).keys()})), o)


@spec
def norm_slice(o):
    return ite("slice_idx" in o and jv_int_ok(o["slice_idx"]),
               map_put(o, "slice_idx", jv(jv_int_val(o["slice_idx"]))), o)


@spec
def norm_yield(o):
    return ite("yielded" in o and jv_truthy(o["yielded"]),
               map_put(norm_slice(o), "yielded", jv(True)),
               map_del(map_del(o, "yielded"), "slice_idx"))


@spec
def norm_id(name, rec):
    """the documented CI identity normalisation N(name, rec) as a function on records"""
    if not ci_on():
        return rec
    if name == "t3_reflection.jsonl":
        return zero_ms(rec)
    if not is_identity_log(name):
        return rec
    if name == "turn.jsonl":
        return norm_yield(zero_durations(map_del(zero_ms(rec), "now")))
    return map_del(zero_ms(rec), "now")


@spec
def stage_ord_of(name):
    """documented within-turn stream order; unknown streams sort last (99)"""
    if name == "t1.jsonl":
        return 1
    if name == "t2.jsonl":
        return 2
    if name == "t3_plan.jsonl":
        return 3
    if name == "t3_dialogue.jsonl":
        return 4
    if name == "t4.jsonl":
        return 5
    if name == "apply.jsonl":
        return 6
    if name == "health.jsonl":
        return 7
    if name == "turn.jsonl":
        return 8
    if name == "scheduler.jsonl":
        return 9
    if name == "t3_reflection.jsonl":
        return 10
    return 99


@spec
def stage_key(r):
    return (r.key.turn_id, r.key.stage_ord, r.key.slice_idx, r.key.seq, r.file_path)


@spec
def is_gen(path, n, p):
    """p is the name of one of the backup generations 1..n of `path` (gname/gidx: see contracts/c16_logs.py)"""
    return 1 <= gidx(path, p) and gidx(path, p) <= n and p == gname(path, gidx(path, p))


@spec
def same_file(fs, fs0, p):
    """name p denotes the same thing (absent, or the same content) in both name spaces"""
    return (p in fs) == (p in fs0) and implies(p in fs0, fs[p] == fs0[p])


@spec
def moved_file(fs, dst, fs0, src):
    """dst now holds exactly what src held (absent if src was absent)"""
    return (dst in fs) == (src in fs0) and implies(src in fs0, fs[dst] == fs0[src])


@spec
def wf_stager(s):
    return s._bytes == bsum(s._buf, len(s._buf)) and s._seq >= 0


@spec
def stager_bounded(s):
    """memory bound of the staging buffer: within the byte limit, except for a single record that alone exceeds it"""
    return s._bytes <= s.byte_limit or len(s._buf) <= 1


# ---------------------------------------------------------------- C15: OrderedDict TTL/LRU caches (engine/cache.py)

@spec
def okeys(d):
    """keys of an insertion-ordered map, oldest first"""
    return list(d.keys())


@spec
def wf_nscache(s):
    """representation invariant of _NamespaceCache (capacity from the validated config is >= 0)"""
    return s._max >= 0 and len(s._d) <= s._max


@spec
def ttl_fresh(ttl, now, ts):
    """an entry stamped ts is still served at clock reading now (ttl == 0 disables expiry)"""
    return ttl == 0 or now - ts <= ttl


@spec
def removed_at(q, oldq, p):
    """q is oldq with the element at position p removed, order of the others kept"""
    return (len(q) == len(oldq) - 1 and 0 <= p and p < len(oldq)
            and forall(i, 0 <= i < len(q), q[i] == ite(i < p, oldq[i], oldq[i + 1])))


@spec
def moved_to_end_at(q, oldq, p):
    """q is oldq with the element at position p moved to the end (newest), order of the others kept"""
    return (len(q) == len(oldq) and 0 <= p and p < len(oldq) and q[len(q) - 1] == oldq[p]
            and forall(i, 0 <= i < len(q) - 1, q[i] == ite(i < p, oldq[i], oldq[i + 1])))


@spec
def same_omap(d, oldd):
    """ordered map unchanged: same keys, same entries, same recency order"""
    return seq_eq(d, oldd) and seq_eq(okeys(d), okeys(oldd))


@spec
def suffix_from(q, oldq, off):
    """q is oldq without its first `off` (oldest) elements"""
    return len(q) == len(oldq) - off and forall(i, 0 <= i < len(q), q[i] == oldq[i + off])


@spec
def same_entries(d, oldd):
    """every key of d was in oldd with the same entry (timestamp and value)"""
    return forall((k, 'Un[K]'), k in d, k in oldd and d[k] == oldd[k])


# ---------------------------------------------------------------- C19: reflection

@spec
def ntokens(s):
    """number of space separated tokens of a summary ('' has none)"""
    return ite(s == "", 0, len(s.split(" ")))


@spec
def no_space_in(xs):
    return forall(i, 0 <= i < len(xs), not (" " in xs[i]))


@spec
def episode_id_of(agent, turn, slot, text):
    """the reflection episode id as a function of (agent id, turn id, slot, text) only"""
    return ("refl-" + turn + "-" + agent + "-" + str(slot) + "-" +
            sha256_hex(agent + "|" + turn + "|" + str(slot) + "|" + text)[:12])
# ---------------------------------------------------------------- C18: graph evolution layer (gel.py)

@spec
def esrc(a, b):
    return ite(a <= b, a, b)


@spec
def edst(a, b):
    return ite(a <= b, b, a)


@spec
def ekey(a, b):
    """canonical undirected edge key of the unordered pair {a, b} (ekeyf(s, d) spells s + "→" + d)"""
    return ekeyf(esrc(a, b), edst(a, b))


@spec
def clampf(x, lo, hi):
    return ite(x > hi, hi, ite(x < lo, lo, x))


@spec
def below_floor(r0, f, fl):
    """the decay pass drops the edge record r0: |w * f| < floor"""
    return absr(r0['weight'] * f) < fl


@spec
def ticked_rec(r0, f, turn):
    """the edge record r0 after one visit of the decay loop of tick() that keeps it (factor f, optional turn)"""
    return {'id': r0['id'], 'src': r0['src'], 'dst': r0['dst'], 'weight': r0['weight'] * f, 'rel': r0['rel'],
            'updated_at': ite(is_none(turn), r0['updated_at'], None),
            'attrs': {'coact': r0['attrs']['coact'],
                      'last_seen_turn': ite(is_none(r0['attrs']['last_seen_turn']) and not is_none(turn), turn,
                                            r0['attrs']['last_seen_turn'])}}
# ---------------------------------------------------------------- C06: snapshot helpers

@spec
def clampf_snap(x, lo, hi):
    return ite(x < lo, lo, ite(x > hi, hi, x))


@spec
def round6(x):
    """round(x, 6): the engine's uninterpreted `round_nd(x, 6)`; the facts assumed about it are listed in c06_snapshot.ROUND_FACTS"""
    return round(x, 6)


@spec
def edge_id_of(src, dst, rel):
    return ite(src <= dst, src + '__' + dst + '__' + rel, dst + '__' + src + '__' + rel)


@spec
def is_snap_name(n):
    """a numbered snapshot body: snap_<digits>.json"""
    return n.endswith('.json') and n.startswith('snap_') and n[5:-5].isdigit()


@spec
def snap_num(n):
    return int_value(n[5:-5])


@spec
def ein_src(e):
    return e.get('src', '')


@spec
def ein_dst(e):
    return e.get('dst', '')


@spec
def ein_rel(e):
    return e.get('rel', 'coact')


@spec
def ein_id(e):
    """canonical key of an input edge record (eid3 = the opaque view of snapshot._edge_id)"""
    return eid3(ein_src(e), ein_dst(e), ein_rel(e))


@spec
def edge_sanitized(o, e, wmin, wmax, eps):
    """o is the record `_sanitize_gel_for_write` emits for the input edge record e"""
    return (o['src'] == ein_src(e) and o['dst'] == ein_dst(e) and o['rel'] == ein_rel(e)
            and o['weight'] == san_weight(e.get('weight', 0.0), wmin, wmax, eps)
            and o['updated_at'] == e.get('updated_at') and same_value(o['attrs'], e.get('attrs', {})))


@spec
def wkey(rec):
    """store key of an exported weight record"""
    return (rec['target_kind'], rec['target_id'], rec['attr'])


@spec
def san_weight(w, wmin, wmax, eps):
    """the weight `_sanitize_gel_for_write` stores for an input weight w"""
    return ite(absr(round6(clampf_snap(w, wmin, wmax))) < eps, 0.0, round6(clampf_snap(w, wmin, wmax)))


@spec
def arrow_key(rec):
    """the undirected "a→b" key of an edge record (clematis/engine/snapshot.py: write_snapshot / load_latest_snapshot)"""
    return ite(rec['src'] <= rec['dst'], rec['src'] + '→' + rec['dst'], rec['dst'] + '→' + rec['src'])


@spec
def j_or_empty(x):
    """`x or {}` for a Json value"""
    return ite(jv_truthy(x), x, jv(dict()))


# ---------------------------------------------------------------- C13: planner / dialogue / sanitiser

@spec
def ws_tokens(s):
    """number of whitespace separated tokens of a string (len(s.split()))"""
    return len(s.split())


@spec
def dget(d, k, dflt):
    """d.get(k, dflt) for a Dyn value d that is a dict (dflt otherwise)"""
    return ite(is_dict(d) and k in as_dict(d), as_dict(d)[k], dyn(dflt))


@spec
def b_base_ops(b):
    """per-turn op cap of a T3 bundle: int(bundle['agent']['caps']['ops']), default 3"""
    return dyn_int(dget(dget(dget(b, 'agent', {}), 'caps', {}), 'ops', 3))


@spec
def b_slice_cap(b):
    """per-slice op cap: int(bundle['slice_caps']['t3_ops']) when that is readable, else the per-turn cap"""
    return ite(is_dict(dget(b, 'slice_caps', {})) and dyn_int_ok(dget(dget(b, 'slice_caps', {}), 't3_ops', b_base_ops(b))),
               dyn_int(dget(dget(b, 'slice_caps', {}), 't3_ops', b_base_ops(b))), b_base_ops(b))


@spec
def b_caps_ops(b):
    return min(b_base_ops(b), b_slice_cap(b))


@spec
def b_sim_stats(b):
    return ite(dyn_truthy(dget(dget(dget(b, 't2', {}), 'metrics', {}), 'sim_stats', {})),
               dget(dget(dget(b, 't2', {}), 'metrics', {}), 'sim_stats', {}), dyn({}))


@spec
def b_s_max(b):
    """best retrieval similarity recorded in the bundle (default 0.0)"""
    return dyn_float(dget(b_sim_stats(b), 'max', 0.0))


@spec
def b_t3cfg(b):
    return ite(is_dict(dget(b, 'cfg', {})), dget(dget(b, 'cfg', {}), 't3', {}), dyn({}))


@spec
def b_policy(b):
    return ite(is_dict(b_t3cfg(b)), dget(b_t3cfg(b), 'policy', {}), dyn({}))


@spec
def b_tau_high(b):
    return dyn_float(dget(b_policy(b), 'tau_high', 0.8))


@spec
def b_tau_low(b):
    return dyn_float(dget(b_policy(b), 'tau_low', 0.4))


@spec
def b_eps_edit(b):
    return dyn_float(dget(b_policy(b), 'epsilon_edit', 0.10))


@spec
def intent_for(s_max, tau_high, tau_low, has_labels):
    """the documented similarity-threshold policy of the rule based planner"""
    return ite(s_max >= tau_high, 'summary', ite(s_max >= tau_low, ite(has_labels, 'assertion', 'ack'), 'question'))


@spec
def b_t3(b):
    return dget(dget(b, 'cfg', {}), 't3', {})


@spec
def b_t2cfg(b):
    return dget(dget(b, 'cfg', {}), 't2', {})


@spec
def b_labels(b):
    return dget(dget(b, 'text', {}), 'labels_from_t1', [])


@spec
def b_nodes(b):
    return dget(dget(b, 't1', {}), 'touched_nodes', [])


@spec
def wf_plan_bundle(b):
    """shape of the T3 plan bundle as clematis/engine/stages/t3/bundle.py:assemble_bundle builds it (only the parts the
    planner / RAG refinement read; every key is optional, a present key has the documented type)"""
    return (is_dict(b)
            and is_dict(dget(b, 'cfg', {})) and is_dict(b_t3(b)) and is_dict(b_t2cfg(b))
            and is_int(dget(b_t3(b), 'tokens', 256))
            and is_dict(dget(b_t3(b), 'policy', {}))
            and is_number(dget(dget(b_t3(b), 'policy', {}), 'tau_high', 0.8))
            and is_number(dget(dget(b_t3(b), 'policy', {}), 'tau_low', 0.4))
            and is_number(dget(dget(b_t3(b), 'policy', {}), 'epsilon_edit', 0.10))
            and is_str(dget(b_t2cfg(b), 'owner_scope', 'any'))
            and is_int(dget(b_t2cfg(b), 'k_retrieval', 64))
            and is_number(dget(b_t2cfg(b), 'sim_threshold', 0.3))
            and is_dict(dget(b, 'agent', {})) and is_dict(dget(dget(b, 'agent', {}), 'caps', {}))
            and is_int(dget(dget(dget(b, 'agent', {}), 'caps', {}), 'ops', 3))
            and is_dict(dget(b, 'slice_caps', {})) and is_int(dget(dget(b, 'slice_caps', {}), 't3_ops', 0))
            and is_dict(dget(b, 't2', {})) and is_dict(dget(dget(b, 't2', {}), 'metrics', {}))
            and is_dict(dget(dget(dget(b, 't2', {}), 'metrics', {}), 'sim_stats', {}))
            and is_number(dget(dget(dget(dget(b, 't2', {}), 'metrics', {}), 'sim_stats', {}), 'max', 0.0))
            and is_dict(dget(b, 'text', {})) and is_list(b_labels(b))
            and forall(i, 0 <= i < len(as_list(b_labels(b))), is_str(as_list(b_labels(b))[i]))
            and is_dict(dget(b, 't1', {})) and is_list(b_nodes(b))
            and forall(i, 0 <= i < len(as_list(b_nodes(b))), is_dict(as_list(b_nodes(b))[i])
                       and is_number(dget(as_list(b_nodes(b))[i], 'delta', 0.0))))


@spec
def wf_dialog_bundle(d):
    """shape of the dialogue bundle as clematis/engine/stages/t3/legacy.py:make_dialog_bundle builds it (only what
    speak() reads; keys optional; template / style prefix / identity / labels / snippet fields are arbitrary)"""
    return (is_dict(d)
            and is_dict(dget(d, 'text', {})) and is_list(dget(dget(d, 'text', {}), 'labels_from_t1', []))
            and is_dict(dget(d, 'agent', {})) and is_dict(dget(dget(d, 'agent', {}), 'caps', {}))
            and is_int(dget(dget(dget(d, 'agent', {}), 'caps', {}), 'tokens', 256))
            and is_dict(dget(d, 'dialogue', {})) and is_int(dget(dget(d, 'dialogue', {}), 'include_top_k_snippets', 2))
            and is_list(dget(d, 'retrieved', []))
            and forall(i, 0 <= i < len(as_list(dget(d, 'retrieved', []))), is_dict(as_list(dget(d, 'retrieved', []))[i])
                       and is_number(dget(as_list(dget(d, 'retrieved', []))[i], 'score', 0.0))))


@spec
def sched_budgets_of(cfg):
    """the Dyn mapping scheduler.budgets of a plain config dict ({} when the subtree is missing or falsy)"""
    return ite(dyn_truthy(dget(dget(cfg, 'scheduler', {}), 'budgets', {})), dget(dget(cfg, 'scheduler', {}), 'budgets', {}), dyn({}))
