"""Spec helper functions (pure; used symbolically by the verifier and natively by the replay)."""


def spec(f):
    return f


# ---------------------------------------------------------------- C15: deterministic FIFO set / LRU

@spec
def distinct_seq(q):
    return forall(i, 0 <= i < len(q), forall(j, i < j < len(q), q[i] != q[j]))


@spec
def wf_lruset(s):
    return (s.cap >= 0 and s.enabled == (s.cap > 0) and len(s._q) == len(s._set)
            and forall(i, 0 <= i < len(s._q), s._q[i] in s._set)
            and distinct_seq(s._q)
            and len(s._set) <= s.cap)


@spec
def wf_lrubytes(s):
    return (s.max_entries >= 0 and s.max_bytes >= 0
            and len(s._q) == len(s._map)
            and forall(i, 0 <= i < len(s._q), s._q[i] in s._map)
            and distinct_seq(s._q)
            and forall((k, 'Un[K]'), k in s._map, s._map[k][1] >= 0)
            and s._bytes == msum(s._map, 'cost')
            and implies(s.max_entries > 0, len(s._map) <= s.max_entries)
            and implies(s.max_bytes > 0, s._bytes <= s.max_bytes))
