"""Spec helper functions (pure; used symbolically by the verifier and natively by the replay)."""


def spec(f):
    return f


# ---------------------------------------------------------------- C15: deterministic FIFO set / LRU

@spec
def distinct_seq(q):
    return forall2(i, j, 0 <= i and i < j and j < len(q), q[i] != q[j])


@spec
def wf_lruset(s):
    return (s.cap >= 0 and s.enabled == (s.cap > 0) and len(s._q) == len(s._set)
            and forall(i, 0 <= i < len(s._q), s._q[i] in s._set)
            and distinct_seq(s._q)
            and len(s._set) <= s.cap)


@spec
def wf_lrubytes(s):
    return (s.max_entries >= 0 and s.max_bytes >= 0
            and len(s._q) == len(s._map)
            and forall(i, 0 <= i < len(s._q), s._q[i] in s._map)
            and distinct_seq(s._q)
            and forall((k, 'Un[K]'), k in s._map, s._map[k][1] >= 0)
            and s._bytes == msum(s._map, 'cost')
            and implies(s.max_entries > 0, len(s._map) <= s.max_entries)
            and implies(s.max_bytes > 0, s._bytes <= s.max_bytes))


@spec
def moved_to_mru(q, oldq, key):
    """q is oldq with the (unique) occurrence of key moved to the end"""
    return (len(q) == len(oldq) and len(q) >= 1 and q[len(q) - 1] == key and
            exists(p, 0 <= p < len(oldq), oldq[p] == key
                   and forall(i, 0 <= i < p, q[i] == oldq[i])
                   and forall(i, p <= i < len(q) - 1, q[i] == oldq[i + 1])))


@spec
def wf_detlru(s):
    return (s.cap >= 0 and s.enabled == (s.cap > 0) and len(s._q) == len(s._map)
            and forall(i, 0 <= i < len(s._q), s._q[i] in s._map)
            and distinct_seq(s._q)
            and len(s._map) <= s.cap)


@spec
def wf_ring(s):
    return (s.k >= 0 and s.enabled == (s.k > 0) and len(s._q) <= s.k
            and forall((x, 'str'), x in s._ref, s._ref[x] > 0)
            and implies(not s.enabled, len(s._q) == 0 and len(s._ref) == 0))


# ---------------------------------------------------------------- C17: scheduler

@spec
def consec_of(sched, a):
    return sched["consec_turns"].get(a, 0)


@spec
def is_elig(sched, mct, a):
    return consec_of(sched, a) < mct


@spec
def tier_of(sched, now, aging_ms, a):
    return ite(aging_ms > 0, ite(now - sched["last_ran_ms"].get(a, 0) < 0, 0, now - sched["last_ran_ms"].get(a, 0)) // ite(aging_ms > 0, aging_ms, 1), 0)


@spec
def mct_of(cfg):
    return cfg.get("max_consecutive_turns", 1000000000)


@spec
def aging_of(cfg):
    return cfg.get("aging_ms", 200)


# ---------------------------------------------------------------- C03: meta-filter (t4)

@spec
def ckey_of(d):
    return ckey3(d.target_kind, d.target_id, d.attr)


@spec
def clip(x, c):
    return ite(x > c, c, ite(x < -c, -c, x))


@spec
def same_meta(a, b):
    return (a.target_kind == b.target_kind and a.target_id == b.target_id and a.attr == b.attr
            and a.op_idx == b.op_idx and a.idx == b.idx)


@spec
def absr(x):
    return ite(x >= 0, x, -x)


@spec
def opt_min(a, b):
    return ite(is_none(a), b, ite(is_none(b), a, ite(some(a) <= some(b), a, b)))


# ---------------------------------------------------------------- C13: planner / dialogue / sanitiser

@spec
def ntokens(s):
    """number of whitespace separated tokens of a string (len(s.split()))"""
    return len(s.split())


@spec
def dget(d, k, dflt):
    """d.get(k, dflt) for a Dyn value d that is a dict (dflt otherwise)"""
    return ite(is_dict(d) and k in as_dict(d), as_dict(d)[k], dyn(dflt))


@spec
def b_base_ops(b):
    """per-turn op cap of a T3 bundle: int(bundle['agent']['caps']['ops']), default 3"""
    return dyn_int(dget(dget(dget(b, 'agent', {}), 'caps', {}), 'ops', 3))


@spec
def b_slice_cap(b):
    """per-slice op cap: int(bundle['slice_caps']['t3_ops']) when that is readable, else the per-turn cap"""
    return ite(is_dict(dget(b, 'slice_caps', {})) and dyn_int_ok(dget(dget(b, 'slice_caps', {}), 't3_ops', b_base_ops(b))),
               dyn_int(dget(dget(b, 'slice_caps', {}), 't3_ops', b_base_ops(b))), b_base_ops(b))


@spec
def b_caps_ops(b):
    return min(b_base_ops(b), b_slice_cap(b))


@spec
def b_sim_stats(b):
    return ite(dyn_truthy(dget(dget(dget(b, 't2', {}), 'metrics', {}), 'sim_stats', {})),
               dget(dget(dget(b, 't2', {}), 'metrics', {}), 'sim_stats', {}), dyn({}))


@spec
def b_s_max(b):
    """best retrieval similarity recorded in the bundle (default 0.0)"""
    return dyn_float(dget(b_sim_stats(b), 'max', 0.0))


@spec
def b_t3cfg(b):
    return ite(is_dict(dget(b, 'cfg', {})), dget(dget(b, 'cfg', {}), 't3', {}), dyn({}))


@spec
def b_policy(b):
    return ite(is_dict(b_t3cfg(b)), dget(b_t3cfg(b), 'policy', {}), dyn({}))


@spec
def b_tau_high(b):
    return dyn_float(dget(b_policy(b), 'tau_high', 0.8))


@spec
def b_tau_low(b):
    return dyn_float(dget(b_policy(b), 'tau_low', 0.4))


@spec
def b_eps_edit(b):
    return dyn_float(dget(b_policy(b), 'epsilon_edit', 0.10))


@spec
def intent_for(s_max, tau_high, tau_low, has_labels):
    """the documented similarity-threshold policy of the rule based planner"""
    return ite(s_max >= tau_high, 'summary', ite(s_max >= tau_low, ite(has_labels, 'assertion', 'ack'), 'question'))


@spec
def b_t3(b):
    return dget(dget(b, 'cfg', {}), 't3', {})


@spec
def b_t2cfg(b):
    return dget(dget(b, 'cfg', {}), 't2', {})


@spec
def b_labels(b):
    return dget(dget(b, 'text', {}), 'labels_from_t1', [])


@spec
def b_nodes(b):
    return dget(dget(b, 't1', {}), 'touched_nodes', [])


@spec
def wf_plan_bundle(b):
    """shape of the T3 plan bundle as clematis/engine/stages/t3/bundle.py:assemble_bundle builds it (only the parts the
    planner / RAG refinement read; every key is optional, a present key has the documented type)"""
    return (is_dict(b)
            and is_dict(dget(b, 'cfg', {})) and is_dict(b_t3(b)) and is_dict(b_t2cfg(b))
            and is_int(dget(b_t3(b), 'tokens', 256))
            and is_dict(dget(b_t3(b), 'policy', {}))
            and is_number(dget(dget(b_t3(b), 'policy', {}), 'tau_high', 0.8))
            and is_number(dget(dget(b_t3(b), 'policy', {}), 'tau_low', 0.4))
            and is_number(dget(dget(b_t3(b), 'policy', {}), 'epsilon_edit', 0.10))
            and is_str(dget(b_t2cfg(b), 'owner_scope', 'any'))
            and is_int(dget(b_t2cfg(b), 'k_retrieval', 64))
            and is_number(dget(b_t2cfg(b), 'sim_threshold', 0.3))
            and is_dict(dget(b, 'agent', {})) and is_dict(dget(dget(b, 'agent', {}), 'caps', {}))
            and is_int(dget(dget(dget(b, 'agent', {}), 'caps', {}), 'ops', 3))
            and is_dict(dget(b, 'slice_caps', {})) and is_int(dget(dget(b, 'slice_caps', {}), 't3_ops', 0))
            and is_dict(dget(b, 't2', {})) and is_dict(dget(dget(b, 't2', {}), 'metrics', {}))
            and is_dict(dget(dget(dget(b, 't2', {}), 'metrics', {}), 'sim_stats', {}))
            and is_number(dget(dget(dget(dget(b, 't2', {}), 'metrics', {}), 'sim_stats', {}), 'max', 0.0))
            and is_dict(dget(b, 'text', {})) and is_list(b_labels(b))
            and forall(i, 0 <= i < len(as_list(b_labels(b))), is_str(as_list(b_labels(b))[i]))
            and is_dict(dget(b, 't1', {})) and is_list(b_nodes(b))
            and forall(i, 0 <= i < len(as_list(b_nodes(b))), is_dict(as_list(b_nodes(b))[i])
                       and is_number(dget(as_list(b_nodes(b))[i], 'delta', 0.0))))


@spec
def wf_dialog_bundle(d):
    """shape of the dialogue bundle as clematis/engine/stages/t3/legacy.py:make_dialog_bundle builds it (only what
    speak() reads; keys optional; template / style prefix / identity / labels / snippet fields are arbitrary)"""
    return (is_dict(d)
            and is_dict(dget(d, 'text', {})) and is_list(dget(dget(d, 'text', {}), 'labels_from_t1', []))
            and is_dict(dget(d, 'agent', {})) and is_dict(dget(dget(d, 'agent', {}), 'caps', {}))
            and is_int(dget(dget(dget(d, 'agent', {}), 'caps', {}), 'tokens', 256))
            and is_dict(dget(d, 'dialogue', {})) and is_int(dget(dget(d, 'dialogue', {}), 'include_top_k_snippets', 2))
            and is_list(dget(d, 'retrieved', []))
            and forall(i, 0 <= i < len(as_list(dget(d, 'retrieved', []))), is_dict(as_list(dget(d, 'retrieved', []))[i])
                       and is_number(dget(as_list(dget(d, 'retrieved', []))[i], 'score', 0.0))))
