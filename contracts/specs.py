"""Spec helper functions (pure; used symbolically by the verifier and natively by the replay)."""


def spec(f):
    return f


# ---------------------------------------------------------------- C15: deterministic FIFO set / LRU

@spec
def distinct_seq(q):
    return forall2(i, j, 0 <= i and i < j and j < len(q), q[i] != q[j])


@spec
def wf_lruset(s):
    return (s.cap >= 0 and s.enabled == (s.cap > 0) and len(s._q) == len(s._set)
            and forall(i, 0 <= i < len(s._q), s._q[i] in s._set)
            and distinct_seq(s._q)
            and len(s._set) <= s.cap)


@spec
def wf_lrubytes(s):
    return (s.max_entries >= 0 and s.max_bytes >= 0
            and len(s._q) == len(s._map)
            and forall(i, 0 <= i < len(s._q), s._q[i] in s._map)
            and distinct_seq(s._q)
            and forall((k, 'Un[K]'), k in s._map, s._map[k][1] >= 0)
            and s._bytes == msum(s._map, 'cost')
            and implies(s.max_entries > 0, len(s._map) <= s.max_entries)
            and implies(s.max_bytes > 0, s._bytes <= s.max_bytes))


@spec
def moved_to_mru(q, oldq, key):
    """q is oldq with the (unique) occurrence of key moved to the end"""
    return (len(q) == len(oldq) and len(q) >= 1 and q[len(q) - 1] == key and
            exists(p, 0 <= p < len(oldq), oldq[p] == key
                   and forall(i, 0 <= i < p, q[i] == oldq[i])
                   and forall(i, p <= i < len(q) - 1, q[i] == oldq[i + 1])))


@spec
def wf_detlru(s):
    return (s.cap >= 0 and s.enabled == (s.cap > 0) and len(s._q) == len(s._map)
            and forall(i, 0 <= i < len(s._q), s._q[i] in s._map)
            and distinct_seq(s._q)
            and len(s._map) <= s.cap)


@spec
def wf_ring(s):
    return (s.k >= 0 and s.enabled == (s.k > 0) and len(s._q) <= s.k
            and forall((x, 'str'), x in s._ref, s._ref[x] > 0)
            and implies(not s.enabled, len(s._q) == 0 and len(s._ref) == 0))


# ---------------------------------------------------------------- C17: scheduler

@spec
def consec_of(sched, a):
    return sched["consec_turns"].get(a, 0)


@spec
def is_elig(sched, mct, a):
    return consec_of(sched, a) < mct


@spec
def tier_of(sched, now, aging_ms, a):
    return ite(aging_ms > 0, ite(now - sched["last_ran_ms"].get(a, 0) < 0, 0, now - sched["last_ran_ms"].get(a, 0)) // ite(aging_ms > 0, aging_ms, 1), 0)


@spec
def mct_of(cfg):
    return cfg.get("max_consecutive_turns", 1000000000)


@spec
def aging_of(cfg):
    return cfg.get("aging_ms", 200)


# ---------------------------------------------------------------- C03: meta-filter (t4)

@spec
def ckey_of(d):
    return ckey3(d.target_kind, d.target_id, d.attr)


@spec
def clip(x, c):
    return ite(x > c, c, ite(x < -c, -c, x))


@spec
def same_meta(a, b):
    return (a.target_kind == b.target_kind and a.target_id == b.target_id and a.attr == b.attr
            and a.op_idx == b.op_idx and a.idx == b.idx)


@spec
def absr(x):
    return ite(x >= 0, x, -x)


@spec
def opt_min(a, b):
    return ite(is_none(a), b, ite(is_none(b), a, ite(some(a) <= some(b), a, b)))


# ---------------------------------------------------------------- C08: abstract file system (ghost `fs`)

@spec
def file_same(a, b, p):
    """file p is the same in file systems a and b (both absent, or both present with equal content)"""
    return ((p in a) == (p in b)) and implies(p in a, a[p] == b[p])


@spec
def file_is(a, p, data):
    return (p in a) and a[p] == data


@spec
def no_temp_left(a, tmps):
    return forall((q, 'str'), q in tmps, not (q in a))


# ---------------------------------------------------------------- C15: OrderedDict TTL/LRU caches (engine/cache.py)

@spec
def okeys(d):
    """keys of an insertion-ordered map, oldest first"""
    return list(d.keys())


@spec
def wf_nscache(s):
    """representation invariant of _NamespaceCache (capacity from the validated config is >= 0)"""
    return s._max >= 0 and len(s._d) <= s._max


@spec
def ttl_fresh(ttl, now, ts):
    """an entry stamped ts is still served at clock reading now (ttl == 0 disables expiry)"""
    return ttl == 0 or now - ts <= ttl


@spec
def removed_at(q, oldq, p):
    """q is oldq with the element at position p removed, order of the others kept"""
    return (len(q) == len(oldq) - 1 and 0 <= p and p < len(oldq)
            and forall(i, 0 <= i < len(q), q[i] == ite(i < p, oldq[i], oldq[i + 1])))


@spec
def moved_to_end_at(q, oldq, p):
    """q is oldq with the element at position p moved to the end (newest), order of the others kept"""
    return (len(q) == len(oldq) and 0 <= p and p < len(oldq) and q[len(q) - 1] == oldq[p]
            and forall(i, 0 <= i < len(q) - 1, q[i] == ite(i < p, oldq[i], oldq[i + 1])))


@spec
def same_omap(d, oldd):
    """ordered map unchanged: same keys, same entries, same recency order"""
    return seq_eq(d, oldd) and seq_eq(okeys(d), okeys(oldd))


@spec
def suffix_from(q, oldq, off):
    """q is oldq without its first `off` (oldest) elements"""
    return len(q) == len(oldq) - off and forall(i, 0 <= i < len(q), q[i] == oldq[i + off])


@spec
def same_entries(d, oldd):
    """every key of d was in oldd with the same entry (timestamp and value)"""
    return forall((k, 'Un[K]'), k in d, k in oldd and d[k] == oldd[k])


# ---------------------------------------------------------------- C19: reflection

@spec
def ntokens(s):
    """number of space separated tokens of a summary ('' has none)"""
    return ite(s == "", 0, len(s.split(" ")))


@spec
def no_space_in(xs):
    return forall(i, 0 <= i < len(xs), not (" " in xs[i]))


@spec
def episode_id_of(agent, turn, slot, text):
    """the reflection episode id as a function of (agent id, turn id, slot, text) only"""
    return ("refl-" + turn + "-" + agent + "-" + str(slot) + "-" +
            sha256_hex(agent + "|" + turn + "|" + str(slot) + "|" + text)[:12])
