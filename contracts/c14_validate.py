"""C14: the decidable per-function parts of 'config validation is total, pure, consistent'."""
import ast
from pyvc.verifier import REG as R
from pyvc.effects import result, find_sites, match_site

V = "configs/validate.py:"
IMPL = V + "_validate_config_normalize_impl"

# _lev is a character-level dynamic program over two strings (string iteration is outside the engine's subset):
# assumed contract -- total on two strings; its precondition "both arguments are strings" is an obligation at call sites
R.contract(V + "_lev", "C14", verify=False,
           types={"a": "str", "b": "str"}, returns="int",
           requires=[("first-argument-is-a-string", "is_str(a)"), ("second-argument-is-a-string", "is_str(b)")],
           ensures=["result >= 0"])

# user-controlled mapping keys may be any hashable JSON/YAML scalar: str, int, float, bool, None
for _t in ("str", "int", "float", "bool", "None"):
    R.contract(
        V + "_suggest_key", "C14", name="_suggest_key[key:%s]" % _t, callee=False,
        types={"bad": _t, "allowed": "Set[str]"},
        ensures=[("no-suggestion-for-non-string-keys", "is_none(result)")] if _t != "str" else
                [("suggestion-is-an-allowed-key", "implies(not is_none(result), some(result) in allowed)")],
        raises="none",
        loops={0: {"inv": ["best_dist <= 99", "implies(not is_none(best_key), some(best_key) in allowed)"]}},
        locals={"best_key": "Optional[str]", "best_dist": "int", "d": "int"},
        unreachable_ok=(["return None"] if _t == "str" else ["best_key, best_dist = (None, 99)", "best_key, best_dist = (k, d)", "for k in allowed", "d = _lev", "if d < best_dist",
                                                 "best_key, best_dist = k, d", "return best_key if", "(best_key, best_dist) ="]),
    )


def only_config_error_is_raised(cl, mod, cls, func):
    """the normaliser accumulates errors and raises exactly one typed error: every `raise` statement raises ConfigError"""
    bad = []
    n_raise = 0
    for n in ast.walk(func):
        if isinstance(n, ast.Raise):
            n_raise += 1
            src = ast.unparse(n.exc) if n.exc is not None else "<re-raise>"
            if not src.startswith("ConfigError("):
                bad.append("line %d: raise %s" % (n.lineno, src[:60]))
    if n_raise == 0:
        return [result(cl["name"], "error", "anchor lost: no raise statement in the normaliser")]
    if bad:
        return [result(cl["name"], "failed", "the normaliser raises something other than ConfigError: " + "; ".join(bad))]
    return [result(cl["name"], "proved", where="%d raise statement(s), all ConfigError" % n_raise)]


R.fclause("C14", "typed-raise/only-ConfigError", "custom", IMPL, fn=only_config_error_is_raised)


def unknown_key_loops_use_suggest_key(cl, mod, cls, func):
    """every use of a user-controlled key as a *string* in the unknown-key loops goes through _suggest_key (whose
    contract covers non-string keys) or through formatting: no direct len()/slicing/method call on the key"""
    bad = []
    loops = [n for n in ast.walk(func) if isinstance(n, ast.For) and isinstance(n.target, ast.Name)
             and isinstance(n.iter, ast.Call) and isinstance(n.iter.func, ast.Attribute) and n.iter.func.attr == "keys"]
    if len(loops) < 20:
        return [result(cl["name"], "error", "anchor lost: expected the unknown-key loops, found %d" % len(loops))]
    for lp in loops:
        k = lp.target.id
        for n in ast.walk(lp):
            if isinstance(n, ast.Call):
                fn = n.func
                if isinstance(fn, ast.Attribute) and isinstance(fn.value, ast.Name) and fn.value.id == k:
                    bad.append("line %d: %s.%s(...)" % (n.lineno, k, fn.attr))
                if isinstance(fn, ast.Name) and fn.id in ("len", "_lev") and any(isinstance(a, ast.Name) and a.id == k for a in n.args):
                    bad.append("line %d: %s(%s)" % (n.lineno, fn.id, k))
            if isinstance(n, ast.Subscript) and isinstance(n.value, ast.Name) and n.value.id == k:
                bad.append("line %d: %s[...]" % (n.lineno, k))
            if isinstance(n, ast.BinOp) and isinstance(n.op, ast.Add) and any(isinstance(x, ast.Name) and x.id == k for x in (n.left, n.right)):
                bad.append("line %d: %s + ..." % (n.lineno, k))
    if bad:
        return [result(cl["name"], "failed", "a user-controlled key is used as a string without a type guard: " + "; ".join(bad[:6]))]
    return [result(cl["name"], "proved", where="%d unknown-key loops checked" % len(loops))]


R.fclause("C14", "totality/unknown-key-loops-treat-keys-opaquely", "custom", IMPL, fn=unknown_key_loops_use_suggest_key)


def api_variants_agree(cl, mod, cls, func):
    """validate_config, its compatibility mode, validate_config_api and validate_config_verbose all run
    _validate_config_normalize_impl(cfg) on the argument they were given and map ConfigError to the same message list"""
    out = []
    want_call = "_validate_config_normalize_impl(cfg)"
    msgs = set()
    for fname in ("validate_config", "validate_config_api", "validate_config_verbose"):
        fn = mod.functions.get(fname)
        if fn is None:
            out.append(result("%s/%s" % (cl["name"], fname), "error", "anchor lost: %s" % fname))
            continue
        calls = [ast.unparse(n) for n in ast.walk(fn) if isinstance(n, ast.Call) and getattr(n.func, "id", None) == "_validate_config_normalize_impl"]
        ok = bool(calls) and all(c == want_call for c in calls)
        out.append(result("%s/%s-runs-the-normaliser-on-its-argument" % (cl["name"], fname), "proved" if ok else "failed",
                          "" if ok else "calls found: %s" % calls))
        for h in [n for n in ast.walk(fn) if isinstance(n, ast.ExceptHandler) and n.type is not None and ast.unparse(n.type) == "ConfigError"]:
            body = [ast.unparse(s) for s in h.body if isinstance(s, ast.Assign)]
            msgs.add(tuple(body))
    ok = len(msgs) == 1
    out.append(result(cl["name"] + "/same-error-mapping", "proved" if ok else "failed",
                      "" if ok else "ConfigError is mapped to messages differently across the API variants: %s" % sorted(msgs)))
    return out


R.fclause("C14", "api-agreement", "custom", V + "validate_config", fn=api_variants_agree)
