"""C14: the decidable per-function parts of 'config validation is total, pure, consistent'."""
import ast
from pyvc.verifier import REG as R
from pyvc.effects import result, find_sites, match_site

V = "configs/validate.py:"
IMPL = V + "_validate_config_normalize_impl"

# _lev is a character-level dynamic program over two strings (string iteration is outside the engine's subset):
# assumed contract -- total on two strings; its precondition "both arguments are strings" is an obligation at call sites
R.contract(V + "_lev", "C14", verify=False,
           types={"a": "str", "b": "str"}, returns="int",
           requires=[("first-argument-is-a-string", "is_str(a)"), ("second-argument-is-a-string", "is_str(b)")],
           ensures=["result >= 0"])

# user-controlled mapping keys may be any hashable JSON/YAML scalar: str, int, float, bool, None
for _t in ("str", "int", "float", "bool", "None"):
    R.contract(
        V + "_suggest_key", "C14", name="_suggest_key[key:%s]" % _t, callee=False,
        types={"bad": _t, "allowed": "Set[str]"},
        ensures=[("no-suggestion-for-non-string-keys", "is_none(result)")] if _t != "str" else
                [("suggestion-is-an-allowed-key", "implies(not is_none(result), some(result) in allowed)")],
        raises="none",
        loops={0: {"inv": ["best_dist <= 99", "implies(not is_none(best_key), some(best_key) in allowed)"]}},
        locals={"best_key": "Optional[str]", "best_dist": "int", "d": "int"},
        unreachable_ok=(["return None"] if _t == "str" else ["best_key, best_dist = (None, 99)", "best_key, best_dist = (k, d)", "for k in allowed", "d = _lev", "if d < best_dist",
                                                 "best_key, best_dist = k, d", "return best_key if", "(best_key, best_dist) ="]),
    )


def only_config_error_is_raised(cl, mod, cls, func):
    """the normaliser accumulates errors and raises exactly one typed error: every `raise` statement raises ConfigError"""
    bad = []
    n_raise = 0
    for n in ast.walk(func):
        if isinstance(n, ast.Raise):
            n_raise += 1
            src = ast.unparse(n.exc) if n.exc is not None else "<re-raise>"
            if not src.startswith("ConfigError("):
                bad.append("line %d: raise %s" % (n.lineno, src[:60]))
    if n_raise == 0:
        return [result(cl["name"], "error", "anchor lost: no raise statement in the normaliser")]
    if bad:
        return [result(cl["name"], "failed", "the normaliser raises something other than ConfigError: " + "; ".join(bad))]
    return [result(cl["name"], "proved", where="%d raise statement(s), all ConfigError" % n_raise)]


R.fclause("C14", "typed-raise/only-ConfigError", "custom", IMPL, fn=only_config_error_is_raised)


def unknown_key_loops_use_suggest_key(cl, mod, cls, func):
    """every use of a user-controlled key as a *string* in the unknown-key loops goes through _suggest_key (whose
    contract covers non-string keys) or through formatting: no direct len()/slicing/method call on the key"""
    bad = []
    loops = [n for n in ast.walk(func) if isinstance(n, ast.For) and isinstance(n.target, ast.Name)
             and isinstance(n.iter, ast.Call) and isinstance(n.iter.func, ast.Attribute) and n.iter.func.attr == "keys"]
    if len(loops) < 20:
        return [result(cl["name"], "error", "anchor lost: expected the unknown-key loops, found %d" % len(loops))]
    for lp in loops:
        k = lp.target.id
        for n in ast.walk(lp):
            if isinstance(n, ast.Call):
                fn = n.func
                if isinstance(fn, ast.Attribute) and isinstance(fn.value, ast.Name) and fn.value.id == k:
                    bad.append("line %d: %s.%s(...)" % (n.lineno, k, fn.attr))
                if isinstance(fn, ast.Name) and fn.id in ("len", "_lev") and any(isinstance(a, ast.Name) and a.id == k for a in n.args):
                    bad.append("line %d: %s(%s)" % (n.lineno, fn.id, k))
            if isinstance(n, ast.Subscript) and isinstance(n.value, ast.Name) and n.value.id == k:
                bad.append("line %d: %s[...]" % (n.lineno, k))
            if isinstance(n, ast.BinOp) and isinstance(n.op, ast.Add) and any(isinstance(x, ast.Name) and x.id == k for x in (n.left, n.right)):
                bad.append("line %d: %s + ..." % (n.lineno, k))
    if bad:
        return [result(cl["name"], "failed", "a user-controlled key is used as a string without a type guard: " + "; ".join(bad[:6]))]
    return [result(cl["name"], "proved", where="%d unknown-key loops checked" % len(loops))]


R.fclause("C14", "totality/unknown-key-loops-treat-keys-opaquely", "custom", IMPL, fn=unknown_key_loops_use_suggest_key)


def api_variants_agree(cl, mod, cls, func):
    """validate_config, its compatibility mode, validate_config_api and validate_config_verbose all run
    _validate_config_normalize_impl(cfg) on the argument they were given and map ConfigError to the same message list"""
    out = []
    want_call = "_validate_config_normalize_impl(cfg)"
    msgs = set()
    for fname in ("validate_config", "validate_config_api", "validate_config_verbose"):
        fn = mod.functions.get(fname)
        if fn is None:
            out.append(result("%s/%s" % (cl["name"], fname), "error", "anchor lost: %s" % fname))
            continue
        calls = [ast.unparse(n) for n in ast.walk(fn) if isinstance(n, ast.Call) and getattr(n.func, "id", None) == "_validate_config_normalize_impl"]
        ok = bool(calls) and all(c == want_call for c in calls)
        out.append(result("%s/%s-runs-the-normaliser-on-its-argument" % (cl["name"], fname), "proved" if ok else "failed",
                          "" if ok else "calls found: %s" % calls))
        for h in [n for n in ast.walk(fn) if isinstance(n, ast.ExceptHandler) and n.type is not None and ast.unparse(n.type) == "ConfigError"]:
            body = [ast.unparse(s) for s in h.body if isinstance(s, ast.Assign)]
            msgs.add(tuple(body))
    ok = len(msgs) == 1
    out.append(result(cl["name"] + "/same-error-mapping", "proved" if ok else "failed",
                      "" if ok else "ConfigError is mapped to messages differently across the API variants: %s" % sorted(msgs)))
    return out


R.fclause("C14", "api-agreement", "custom", V + "validate_config", fn=api_variants_agree)


# ---------------------------------------------------------------- totality of the leaf coercions
def untrusted_conversion_cannot_escape(cl, mod, cls, func):
    """`int(v)` / `float(v)` of the untrusted leaf value raises TypeError, ValueError *and* OverflowError (int(inf),
    float(10**400)): the conversion of the first parameter sits in a try whose handler catches Exception (or
    everything) and does not re-raise"""
    from pyvc.effects import handler_catches_all, handler_is_quiet
    v = func.args.args[0].arg
    conv = func.name.replace("_coerce_", "")
    sites = []
    for tr in [n for n in ast.walk(func) if isinstance(n, ast.Try)]:
        for st in tr.body:
            for n in ast.walk(st):
                if isinstance(n, ast.Call) and getattr(n.func, "id", None) == conv and n.args and isinstance(n.args[0], ast.Name) and n.args[0].id == v:
                    sites.append((n, tr))
    all_conv = [n for n in ast.walk(func) if isinstance(n, ast.Call) and getattr(n.func, "id", None) == conv and n.args
                and isinstance(n.args[0], ast.Name) and n.args[0].id == v]
    if not all_conv:
        return [result(cl["name"], "error", "anchor lost: no %s(%s) in %s" % (conv, v, func.name))]
    guarded = {id(n) for n, tr in sites if any(handler_catches_all(h) and handler_is_quiet(h) for h in tr.handlers)}
    bad = [n for n in all_conv if id(n) not in guarded]
    if bad:
        return [result(cl["name"], "failed", "%s(%s) at line %d is not inside a catch-all handler: OverflowError (inf, huge ints) "
                       "or another exception type escapes the validator" % (conv, v, bad[0].lineno))]
    return [result(cl["name"], "proved", where="%d conversion site(s)" % len(all_conv))]


for _f in ("_coerce_int", "_coerce_float"):
    R.fclause("C14", "totality/leaf-conversion-cannot-escape:" + _f, "custom", V + _f, fn=untrusted_conversion_cannot_escape)


# ---------------------------------------------------------------- purity: copy-on-normalise discipline
# "never mutates its input": the normaliser works on `merged = _deep_merge(cfg_in, defaults)` (fresh top level) and takes a
# fresh shallow copy of every sub-section (_ensure_subdict) before writing into it.  Three clause families:
#   fresh-return/<helper>       every value returned by _ensure_dict / _deep_merge / _ensure_subdict is a freshly built dict
#                               (literal, dict(...), a call of a helper with this same clause) -- never an object reachable
#                               from the arguments
#   helpers-do-not-write-args   _ensure_dict and _deep_merge never store into their parameters
#   writes-only-into-fresh      in the normaliser, every container that is written (x[k] = .., del x[k], x.update/
#                               setdefault/pop/clear/append/extend) is a local bound *only* to fresh objects; the parameter
#                               is never written; every _ensure_subdict(X, ..) call has such a local as X
# Name-level analysis: values stored *inside* a fresh container may still alias the input; they are only written after
# having been re-copied through _ensure_subdict, which is what the third clause enforces.
_FRESH_HELPERS = {"_ensure_dict", "_deep_merge", "_ensure_subdict"}
_FRESH_CTORS = {"dict", "list", "set", "sorted", "deepcopy", "tuple", "frozenset"}
_SCALAR_FUNCS = {"int", "float", "str", "bool", "len", "min", "max", "abs", "round", "isinstance", "_coerce_int", "_coerce_float",
                 "_coerce_bool", "repr", "sum", "any", "all"}
_MUTATORS = {"update", "setdefault", "pop", "clear", "append", "extend", "popitem", "insert", "remove", "sort", "add", "discard"}


def _is_fresh(e, fresh_names):
    if isinstance(e, (ast.Dict, ast.List, ast.Set, ast.DictComp, ast.ListComp, ast.SetComp, ast.Constant, ast.JoinedStr,
                      ast.Compare, ast.BoolOp, ast.BinOp, ast.UnaryOp, ast.Tuple)):
        if isinstance(e, ast.BoolOp):     # `x or {}` yields x itself
            return all(_is_fresh(v, fresh_names) for v in e.values)
        return True
    if isinstance(e, ast.Call):
        f = e.func
        nm = f.id if isinstance(f, ast.Name) else f.attr if isinstance(f, ast.Attribute) else None
        if isinstance(f, ast.Name) and (nm in _FRESH_HELPERS or nm in _FRESH_CTORS or nm in _SCALAR_FUNCS):
            return True
        if isinstance(f, ast.Attribute) and nm == "setdefault" and isinstance(f.value, ast.Name) and f.value.id in fresh_names \
                and len(e.args) == 2 and _is_fresh(e.args[1], fresh_names):
            return True       # fresh_container.setdefault(k, <fresh>)
        if isinstance(f, ast.Attribute) and nm in ("copy", "strip", "lower", "upper", "keys", "items", "values", "format", "join", "split"):
            return True
        return False
    if isinstance(e, ast.IfExp):
        return _is_fresh(e.body, fresh_names) and _is_fresh(e.orelse, fresh_names)
    if isinstance(e, ast.Name):
        return e.id in fresh_names
    return False


def _fresh_locals(func):
    """names all of whose bindings in `func` are fresh expressions (fixpoint); parameters are never fresh"""
    params = {a.arg for a in func.args.args + func.args.kwonlyargs + func.args.posonlyargs}
    binds = {}
    for n in ast.walk(func):
        if isinstance(n, ast.Assign):
            for tg in n.targets:
                if isinstance(tg, ast.Name):
                    binds.setdefault(tg.id, []).append(n.value)
                elif isinstance(tg, (ast.Tuple, ast.List)):
                    for el in tg.elts:
                        if isinstance(el, ast.Name):
                            binds.setdefault(el.id, []).append(None)
        elif isinstance(n, ast.AnnAssign) and isinstance(n.target, ast.Name) and n.value is not None:
            binds.setdefault(n.target.id, []).append(n.value)
        elif isinstance(n, (ast.For, ast.comprehension)):
            for el in ast.walk(n.target):
                if isinstance(el, ast.Name):
                    binds.setdefault(el.id, []).append(None)
        elif isinstance(n, ast.With):
            for it in n.items:
                if it.optional_vars is not None:
                    for el in ast.walk(it.optional_vars):
                        if isinstance(el, ast.Name):
                            binds.setdefault(el.id, []).append(None)
    fresh = set()
    changed = True
    while changed:
        changed = False
        for nm, rhss in binds.items():
            if nm in fresh or nm in params:
                continue
            if all(r is not None and _is_fresh(r, fresh) for r in rhss):
                fresh.add(nm)
                changed = True
    return fresh, params


def _written_names(func):
    out = []
    for n in ast.walk(func):
        tgs = []
        if isinstance(n, ast.Assign):
            tgs = n.targets
        elif isinstance(n, (ast.AugAssign, ast.AnnAssign)):
            tgs = [n.target]
        elif isinstance(n, ast.Delete):
            tgs = n.targets
        for tg in tgs:
            if isinstance(tg, (ast.Subscript, ast.Attribute)) and isinstance(tg.value, ast.Name):
                out.append((tg.value.id, n.lineno, ast.unparse(tg)))
        if isinstance(n, ast.Call) and isinstance(n.func, ast.Attribute) and n.func.attr in _MUTATORS and isinstance(n.func.value, ast.Name):
            out.append((n.func.value.id, n.lineno, ast.unparse(n.func)))
    return out


def returns_fresh(cl, mod, cls, func):
    fresh, params = _fresh_locals(func)
    rets = [n for n in ast.walk(func) if isinstance(n, ast.Return) and n.value is not None]
    if not rets:
        return [result(cl["name"], "error", "anchor lost: %s has no return value" % func.name)]
    bad = [r for r in rets if not _is_fresh(r.value, fresh)]
    if bad:
        return [result(cl["name"], "failed", "%s can return an object that is not freshly built (line %d: return %s): the caller's "
                       "input is handed out for in-place normalisation" % (func.name, bad[0].lineno, ast.unparse(bad[0].value)[:60]))]
    return [result(cl["name"], "proved", where="%d return(s), all fresh" % len(rets))]


def does_not_write_params(cl, mod, cls, func):
    fresh, params = _fresh_locals(func)
    bad = [(nm, ln, src) for nm, ln, src in _written_names(func) if nm in params or nm not in fresh]
    if bad:
        return [result(cl["name"], "failed", "%s writes into %s (line %d: %s), which is not a fresh local" % (func.name, bad[0][0], bad[0][1], bad[0][2]))]
    return [result(cl["name"], "proved")]


def writes_only_into_fresh(cl, mod, cls, func):
    fresh, params = _fresh_locals(func)
    out = []
    bad = sorted({"%s (line %d: %s)" % (nm, ln, src[:40]) for nm, ln, src in _written_names(func) if nm in params or nm not in fresh})
    out.append(result(cl["name"] + "/every-written-container-is-a-fresh-local", "failed" if bad else "proved",
                      "written but not bound only to fresh copies: " + "; ".join(bad[:6]) if bad else "",
                      where="%d fresh locals" % len(fresh)))
    calls = [n for n in ast.walk(func) if isinstance(n, ast.Call) and getattr(n.func, "id", None) == "_ensure_subdict"]
    if not calls:
        out.append(result(cl["name"] + "/ensure_subdict-parents-are-fresh", "error", "anchor lost: no _ensure_subdict call"))
    else:
        badc = ["line %d: %s" % (c.lineno, ast.unparse(c)[:50]) for c in calls
                if not (c.args and isinstance(c.args[0], ast.Name) and c.args[0].id in fresh)]
        out.append(result(cl["name"] + "/ensure_subdict-parents-are-fresh", "failed" if badc else "proved", "; ".join(badc[:6]),
                          where="%d call(s)" % len(calls)))
    return out


for _f in ("_ensure_dict", "_deep_merge", "_ensure_subdict"):
    R.fclause("C14", "purity/fresh-return:" + _f, "custom", V + _f, fn=returns_fresh)
for _f in ("_ensure_dict", "_deep_merge"):
    R.fclause("C14", "purity/helpers-do-not-write-args:" + _f, "custom", V + _f, fn=does_not_write_params)
R.fclause("C14", "purity/writes-only-into-fresh", "custom", IMPL, fn=writes_only_into_fresh)


# ---------------------------------------------------------------- every allowed key is examined
# "Every accepted configuration satisfies the documented ranges ... and the engine can execute turns under it": a key
# that is in an ALLOWED_* set but that the normaliser never mentions is accepted with *any* value (the unknown-key
# check passes, nothing type-checks it).  Necessary condition, one obligation per key: the key occurs as a string
# constant inside the normaliser, or is exempt because the engine never reads it / reads it through a total conversion.
_KEY_EXEMPT = {
    ("ALLOWED_TOP", "flags"): "free-form feature flags: carried through, not read by the engine stages",
    ("ALLOWED_TOP", "surface_method"): "not read by any stage (Config field only)",
    ("ALLOWED_T2", "archive"): "reserved section, not read by any stage",
    ("ALLOWED_T2", "owner_scope"): "read only through str(...).lower() and compared with 'agent' / 'world': any value is tolerated",
}


def allowed_keys_are_examined(cl, mod, cls, func):
    mentioned = {n.value for n in ast.walk(func) if isinstance(n, ast.Constant) and isinstance(n.value, str)}
    out = []
    nsets = 0
    for st in mod.tree.body:
        tg = None
        if isinstance(st, ast.Assign) and len(st.targets) == 1 and isinstance(st.targets[0], ast.Name):
            tg, val = st.targets[0].id, st.value
        elif isinstance(st, ast.AnnAssign) and isinstance(st.target, ast.Name) and st.value is not None:
            tg, val = st.target.id, st.value
        if not tg or not tg.startswith("ALLOWED"):
            continue
        try:
            keys = ast.literal_eval(val)
        except Exception:
            out.append(result("%s/%s" % (cl["name"], tg), "error", "anchor lost: %s is not a literal set" % tg))
            continue
        nsets += 1
        for k in sorted(keys):
            if not isinstance(k, str):
                continue
            nm = "%s/%s:%s" % (cl["name"], tg, k)
            if k in mentioned:
                out.append(result(nm, "proved", where="mentioned in the normaliser"))
            elif (tg, k) in _KEY_EXEMPT:
                out.append(result(nm, "proved", where="exempt: " + _KEY_EXEMPT[(tg, k)]))
            else:
                out.append(result(nm, "failed", "key %r is allowed (%s) but the normaliser never looks at it: any value is accepted and "
                                                "handed to the engine unchecked" % (k, tg)))
    if nsets < 20:
        out.append(result(cl["name"] + "/anchors", "error", "anchor lost: expected the ALLOWED_* key sets, found %d" % nsets))
    return out


R.fclause("C14", "runnable/allowed-key-is-examined", "custom", IMPL, fn=allowed_keys_are_examined)


# ---------------------------------------------------------------- totality: user-controlled keys are never ordered against each other
# Mapping keys of the input may be str/int/float/bool/None mixed: `sorted()`, `min()`, `max()` or `.sort()` over them
# raises TypeError ('<' not supported between 'int' and 'str').  Module-wide clause over configs/validate.py: no such call
# (without a total `key=` function) takes an argument built from the keys of a function parameter or of a raw_* section.
def user_keys_are_never_ordered(cl, mod, cls, func):
    bad = []
    nfun = 0
    for fn in ast.walk(mod.tree):
        if not isinstance(fn, (ast.FunctionDef, ast.AsyncFunctionDef)):
            continue
        nfun += 1
        params = {a.arg for a in fn.args.args + fn.args.kwonlyargs + fn.args.posonlyargs}

        def user_mapping(e):
            return isinstance(e, ast.Name) and (e.id in params or e.id.startswith("raw") or e.id in ("cfg", "cfg_in", "merged"))

        def key_source(e):
            for x in ast.walk(e):
                if isinstance(x, ast.Call):
                    f = x.func
                    if isinstance(f, ast.Name) and f.id in ("set", "list", "tuple", "frozenset", "iter") and x.args and user_mapping(x.args[0]):
                        return True
                    if isinstance(f, ast.Attribute) and f.attr in ("keys", "items") and user_mapping(f.value):
                        return True
                if isinstance(x, (ast.ListComp, ast.SetComp, ast.GeneratorExp)) and any(user_mapping(g.iter) for g in x.generators):
                    return True
            return user_mapping(e)

        for n in ast.walk(fn):
            if not isinstance(n, ast.Call):
                continue
            f = n.func
            is_order = (isinstance(f, ast.Name) and f.id in ("sorted", "min", "max")) or (isinstance(f, ast.Attribute) and f.attr == "sort")
            if not is_order or any(k.arg == "key" for k in n.keywords):
                continue
            args = list(n.args) + ([f.value] if isinstance(f, ast.Attribute) else [])
            if any(key_source(a) for a in args):
                bad.append("%s line %d: %s" % (fn.name, n.lineno, ast.unparse(n)[:60]))
    if bad:
        return [result(cl["name"], "failed", "keys of a user-supplied mapping are ordered against each other (TypeError for mixed key types): "
                       + "; ".join(sorted(set(bad))[:6]))]
    return [result(cl["name"], "proved", where="%d functions scanned" % nfun)]


R.fclause("C14", "totality/user-keys-are-never-ordered", "custom", IMPL, fn=user_keys_are_never_ordered)
