"""Engine F value-flow clauses for C02: code that runs whatever the feature gates say (the persistence layer: snapshot
sanitiser, writer, loader) reads no validator-accepted key of a gated configuration subtree other than the gate itself.

"While a feature gate is off ... any values placed in that feature's configuration subtree have no effect: ... snapshots
and the engine state after every turn equal those of a run whose configuration omits the subtree."  The snapshot code is
not behind any gate (it sanitises GEL edges on every write and boot load), so a config read there flows into snapshots and
state for *every* gate valuation.  The clause therefore is: in clematis/engine/snapshot.py, every constant-key read from a
value derived from cfg['graph'] / cfg['perf'] / cfg['scheduler'] names a key the validator does not accept under that
subtree (legacy spellings such as graph.weight_min that no validated configuration can contain) -- the sets of accepted
keys are read from configs/validate.py on every run."""
import ast
from pyvc.verifier import REG as R
from pyvc.effects import result
from pyvc import frontend as _fe

_SUBTREES = {"graph": "ALLOWED_GRAPH", "perf": "ALLOWED_PERF", "scheduler": "ALLOWED_SCHEDULER"}


def _allowed_sets():
    """name -> set of string constants, for every module-level `ALLOWED_* = {...}` of configs/validate.py"""
    mod = _fe.load_module("configs/validate.py")
    out = {}
    for st in mod.tree.body:
        if isinstance(st, ast.Assign) and len(st.targets) == 1 and isinstance(st.targets[0], ast.Name) \
                and st.targets[0].id.startswith("ALLOWED_") and isinstance(st.value, (ast.Set, ast.Dict)):
            elts = st.value.elts if isinstance(st.value, ast.Set) else st.value.keys
            out[st.targets[0].id] = {e.value for e in elts if isinstance(e, ast.Constant) and isinstance(e.value, str)}
    return out


def _const_key_read(e):
    """(receiver expr, key) of `x.get('k'[, d])` / `x['k']`, else None"""
    if isinstance(e, ast.Call) and isinstance(e.func, ast.Attribute) and e.func.attr == "get" and e.args \
            and isinstance(e.args[0], ast.Constant) and isinstance(e.args[0].value, str):
        return e.func.value, e.args[0].value
    if isinstance(e, ast.Subscript) and isinstance(e.slice, ast.Constant) and isinstance(e.slice.value, str):
        return e.value, e.slice.value
    return None


def _strip(e):
    """x or {} / (x) / dict(x) -> x"""
    while True:
        if isinstance(e, ast.BoolOp) and isinstance(e.op, ast.Or):
            e = e.values[0]
        elif isinstance(e, ast.Call) and isinstance(e.func, ast.Name) and e.func.id in ("dict", "_ensure_dict", "ensure_dict") and e.args:
            e = e.args[0]
        else:
            return e


def gated_subtree_values_unread(cl, mod, cls, func):
    allowed = _allowed_sets()
    if "ALLOWED_GRAPH" not in allowed:
        return [result(cl["name"], "error", "anchor lost: ALLOWED_GRAPH not found in configs/validate.py")]
    bad, nfun, nreads = [], 0, 0
    for fn in ast.walk(mod.tree):
        if not isinstance(fn, (ast.FunctionDef, ast.AsyncFunctionDef)):
            continue
        nfun += 1
        # locals bound to a gated subtree (path of keys below the config root), to a fixpoint
        sub = {}     # local name -> (subtree, path tuple)
        inter = set()    # ids of reads that only select a sub-mapping (bound to a local / receiver of a deeper read)

        def path_of(e):
            e = _strip(e)
            if isinstance(e, ast.Name) and e.id in sub:
                return sub[e.id]
            r = _const_key_read(e)
            if r is None:
                return None
            recv, k = r
            p = path_of(recv)
            if p is not None:
                inter.add(id(_strip(recv)))
                return (p[0], p[1] + (k,))
            if k in _SUBTREES:
                return (k, ())
            return None

        for _ in range(4):
            for n in ast.walk(fn):
                if isinstance(n, ast.Assign) and len(n.targets) == 1 and isinstance(n.targets[0], ast.Name):
                    p = path_of(n.value)
                    if p is not None:
                        sub[n.targets[0].id] = p
                        inter.add(id(_strip(n.value)))
        for n in ast.walk(fn):
            r = _const_key_read(n)
            if r is None:
                continue
            recv, k = r
            p = path_of(recv)
            if p is None or id(n) in inter:
                continue         # not below a gated subtree / only selects a sub-mapping that is inspected further
            nreads += 1
            tree, path = p
            if tree == "graph" and path == () and k == "enabled":
                continue
            setname = _SUBTREES[tree] + ("_" + "_".join(x.upper() for x in path) if path else "")
            acc = allowed.get(setname)
            if acc is None:
                # below a key the validator does not know at all: unreachable for validated configurations
                parent = allowed.get(_SUBTREES[tree] + ("_" + "_".join(x.upper() for x in path[:-1]) if path[:-1] else ""), set())
                if path and path[-1] not in parent:
                    continue
                bad.append("%s line %d: reads %s.%s (accepted-key set %s unknown)" % (fn.name, n.lineno, ".".join((tree,) + path), k, setname))
            elif k in acc:
                bad.append("%s line %d: reads the validator-accepted key %s.%s outside any gate" % (fn.name, n.lineno, ".".join((tree,) + path), k))
    nm = cl["name"]
    if bad:
        return [result(nm, "failed", "ungated persistence code reads a gated subtree's values: " + "; ".join(sorted(set(bad))[:6]))]
    return [result(nm, "proved", where="%d functions, %d reads below gated subtrees (all of keys no validated config can hold)" % (nfun, nreads))]


R.fclause("C02", "values/persistence-reads-no-gated-subtree-value", "custom", "clematis/engine/snapshot.py:_graph_bounds_from_cfg",
          fn=gated_subtree_values_unread)
