"""C09 -- stage-level parallelism is indistinguishable from sequential execution (per-function claims).

run_parallel is verified against a *trusted* model of concurrent.futures (pyvc/externals.py:_tpe_submit):
a Future is the outcome of the submitted invocation, `result()` returns the value or re-raises, read in
whatever order the code asks -- completion order is never observable.  Tasks are opaque callables (sort
`Thunk`) with the declared contract `ThunkFn`: the i-th started task either returns task_res(i) or raises an
exception with type name task_exc_type(i) / message task_exc_msg(i), as told by the oracle task_fails(i)
(uninterpreted = arbitrary, so every subset of failing tasks is covered).

Engine additions used here (see ENGINE_GUIDE / final report): callable uninterpreted sorts
(R.untype(..., callable=...)), funtype exc_info / pure_result, Future[T] values + ThreadPoolExecutor model,
exists_fn(p, body) + contract `witnesses`, zero-arg super(), type(exc).__name__ / str(exc), `exc` in ensures_exc,
havoc of effect-written ghost variables at loop cuts.
"""
import ast
import os

from pyvc.verifier import REG as R

PAR = "clematis/engine/util/parallel.py:"

R.untype("PK")     # task key
R.untype("PR")     # task result
R.untype("PA")     # merged (aggregated) result
R.untype("OK")     # order_key(key): any type with a total order (`le_OK`, uninterpreted)
R.uf("okey", ["Un[PK]"], "Un[OK]")
R.uf("task_fails", ["int"], "bool")
R.uf("task_res", ["int"], "Un[PR]")
R.uf("task_exc_type", ["int"], "str")
R.uf("task_exc_msg", ["int"], "str")
KR = "List[Tuple[Un[PK], Un[PR]]]"
R.uf("merge_of", [KR], "Un[PA]")

# a task thunk: started (called / submitted) tasks are recorded in ghost `calls`; outcome = oracle at its start index
R.funtype("ThunkFn", params=[], returns="Un[PR]",
          effects_before=["calls.append(self_fn)"],
          raises={"Exception": "task_fails(len(calls) - 1)"},
          ensures=["not task_fails(len(calls) - 1)", "result == task_res(len(calls) - 1)"],
          exc_info=("task_exc_type(len(calls) - 1)", "task_exc_msg(len(calls) - 1)"))
R.untype("Thunk", callable="ThunkFn")
# merge_fn "MUST be pure" (docstring): a total deterministic function of the list it receives; every call is recorded
R.funtype("MergeFn", params=["xs"], returns="Un[PA]", effects_before=["merged.append(list(xs))"],
          pure_result="merge_of(xs)")
# order_key: pure, total
R.funtype("OrderKeyFn", params=["k"], returns="Un[OK]", pure_result="okey(k)")
R.optobj("OptMergeFn", "MergeFn")
R.optobj("OptOrderKeyFn", "OrderKeyFn")
R.record("TaskError", {"key": "Un[PK]", "exc_type": "str", "message": "str"},
         pyclass="clematis.engine.util.parallel:TaskError")
R.objtype("ParallelError", {"errors": "List[TaskError]"}, cls=("clematis/engine/util/parallel.py", "ParallelError"))

TASKS = "List[Tuple[Un[PK], Un[Thunk]]]"
STARTED_IN_ORDER = "forall(j, 0 <= j < len(calls), calls[j] == tasks[j][1])"

R.contract(
    PAR + "run_parallel", "C09", callee=False,
    types={"tasks": TASKS, "max_workers": "int", "merge_fn": "OptMergeFn", "order_key": "OptOrderKeyFn"},
    ghost={"calls": ("List[Un[Thunk]]", "empty"), "merged": ("List[" + KR + "]", "empty")},
    # the precondition of the property: both callbacks are callables (None is what t2/core.py passes today)
    requires=[("merge_fn-callable", "present(merge_fn)"), ("order_key-callable", "present(order_key)")],
    ensures=[
        ("merge-called-exactly-once", "len(merged) == 1"),
        ("returns-merge-of-that-list", "result == merge_of(merged[0])"),
        # the same clause on the sequential (max_workers <= 1) and on the pool branch: merge_fn sees one list,
        # a function of (tasks, task outcomes, order_key) only
        ("merged-all-results-sorted-by-key-then-index", "par_merged_ok(merged[0], tasks)"),
        ("normal-return-means-no-task-failed", "forall(i, 0 <= i < len(tasks), not task_fails(i))"),
        ("every-thunk-started-once-in-task-order", "len(calls) == len(tasks) and " + STARTED_IN_ORDER),
        ("tasks-untouched", "seq_eq(tasks, old(tasks))"),
    ],
    raises={"ParallelError": "exists(i, 0 <= i < len(tasks), task_fails(i))"},
    ensures_exc=[
        ("merge-not-called-on-failure", "len(merged) == 0"),
        ("thunks-started-in-task-order", "len(calls) <= len(tasks) and " + STARTED_IN_ORDER),
        ("sequential-stops-at-first-failure",
         "implies(max_workers <= 1, len(calls) >= 1 and task_fails(len(calls) - 1) and "
         "forall(j, 0 <= j < len(calls) - 1, not task_fails(j)) and len(exc.errors) == 1)"),
        ("pool-starts-every-task", "implies(max_workers > 1, len(calls) == len(tasks))"),
        ("every-failure-reported-sorted-by-key-then-index", "par_errors_ok(exc.errors, tasks, len(calls))"),
        ("tasks-untouched", "seq_eq(tasks, old(tasks))"),
    ],
    witnesses={"q": ["lambda t: errors[t][1]", "lambda t: len(calls) - 1"]},
    loops={
        0: {"inv": [      # sequential: for k, fn in tasks
            "len(results) == _i and len(calls) == _i and len(merged) == 0",
            "forall(j, 0 <= j < _i, results[j][0] == tasks[j][0] and results[j][1] == task_res(j) and not task_fails(j) "
            "and calls[j] == tasks[j][1])",
        ]},
        1: {"inv": [      # submit: for idx, (k, fn) in enumerate(tasks)
            "len(futures) == _i and len(calls) == _i and len(merged) == 0",
            "len(results_unordered) == 0 and len(errors) == 0",
            "forall(j, 0 <= j < _i, calls[j] == tasks[j][1] and futures[j][0] == j and futures[j][1] == tasks[j][0] and "
            "futures[j][2].raised == task_fails(j) and futures[j][2].exc_type == task_exc_type(j) and "
            "futures[j][2].exc_msg == task_exc_msg(j) and implies(not task_fails(j), futures[j][2].value == task_res(j)))",
        ]},
        2: {"inv": [      # collect: for idx, k, fut in futures
            "len(merged) == 0 and len(calls) == len(tasks) and len(futures) == len(tasks)",
            "len(results_unordered) + len(errors) == _i",
            "forall(t, 0 <= t < len(results_unordered), 0 <= results_unordered[t][0] and results_unordered[t][0] < _i and "
            "not task_fails(results_unordered[t][0]) and results_unordered[t][1] == tasks[results_unordered[t][0]][0] and "
            "results_unordered[t][2] == task_res(results_unordered[t][0]))",
            "implies(len(errors) == 0, forall(t, 0 <= t < len(results_unordered), results_unordered[t][0] == t))",
            "forall(t, 0 <= t < len(errors), 0 <= errors[t][1] and errors[t][1] < _i and task_fails(errors[t][1]) and "
            "errors[t][0] == okey(tasks[errors[t][1]][0]) and errors[t][2].key == tasks[errors[t][1]][0] and "
            "errors[t][2].exc_type == task_exc_type(errors[t][1]) and errors[t][2].message == task_exc_msg(errors[t][1]))",
            "forall2(a, b, 0 <= a and a < b and b < len(errors), errors[a][1] < errors[b][1])",
            "forall(j, 0 <= j < _i and task_fails(j), exists(t, 0 <= t < len(errors), errors[t][1] == j))",
            STARTED_IN_ORDER,
        ]},
    },
    locals={"results": KR, "results_ordered": KR, "results_unordered": "List[Tuple[int, Un[PK], Un[PR]]]",
            "errors": "List[Tuple[Un[OK], int, TaskError]]", "futures": "List[Tuple[int, Un[PK], Future[Un[PR]]]]"},
)


# ------------------------------------------------------------------ call-site obligations of run_parallel
# The callers (t1_propagate, t2_semantic: > 600 lines each, numpy / datetime inside) are not interpreted
# symbolically; instead every syntactic call of run_parallel in the repository gets one obligation per `requires`
# clause of the contract above, evaluated by the spec evaluator on the *shape* of the actual arguments:
#   None literal -> None;  lambda / nested def / module-level function -> a callable;  anything else -> unknown
#   (an unconstrained presence flag, so the clause is not discharged);  argument missing -> clause false.
# Obligation name: run_parallel-callsites/<file>:<enclosing function>/call#<k>/pre:<clause>.

def _enclosing_functions(tree):
    """-> {id(call node): [enclosing FunctionDef / ClassDef chain]} for every ast.Call in the module"""
    out = {}

    def walk(n, chain):
        for ch in ast.iter_child_nodes(n):
            if isinstance(ch, (ast.FunctionDef, ast.AsyncFunctionDef, ast.ClassDef)):
                walk(ch, chain + [ch])
            else:
                if isinstance(ch, ast.Call):
                    out[id(ch)] = chain
                walk(ch, chain)

    walk(tree, [])
    return out


def _binds_callable(chain, tree, name):
    """is `name` bound, in the enclosing functions or at module level, to a def / lambda only?"""
    scopes = [c for c in chain if isinstance(c, (ast.FunctionDef, ast.AsyncFunctionDef))] + [tree]
    for sc in list(reversed(scopes[:-1])) + [tree]:
        if not isinstance(sc, ast.Module):
            a = sc.args
            if name in {p.arg for p in a.posonlyargs + a.args + a.kwonlyargs}:
                return False
        found = None
        for n in ast.walk(sc):
            if isinstance(n, (ast.FunctionDef, ast.AsyncFunctionDef)) and n.name == name and n is not sc:
                found = True if found is None else found
            elif isinstance(n, ast.Assign) and any(isinstance(t, ast.Name) and t.id == name for t in n.targets):
                found = isinstance(n.value, ast.Lambda) and (found is None or found)
            elif isinstance(n, (ast.AnnAssign, ast.AugAssign, ast.NamedExpr)) and isinstance(n.target, ast.Name) \
                    and n.target.id == name:
                found = False
        if found is not None:
            return bool(found)
    return False


def _run_parallel_callsites():
    import z3
    from pyvc import frontend
    from pyvc.verifier import Verifier
    from pyvc.core import Path, Env, VOptObj
    from pyvc.interp import Interp
    from pyvc.values import VNone, VFunc
    repo = os.environ.get("VERIF_REPO", frontend.REPO)
    contract = [c for c in R.variants if c.key == PAR + "run_parallel"][0]
    mod, _, fnode = frontend.find_function(contract.key, repo)
    kwonly = [p.arg for p in fnode.args.kwonlyargs]
    positional = [p.arg for p in fnode.args.posonlyargs + fnode.args.args]
    goals = []
    nsites = 0
    for root, dirs, files in os.walk(os.path.join(repo, "clematis")):
        dirs.sort()
        for fn in sorted(files):
            if not fn.endswith(".py"):
                continue
            path = os.path.join(root, fn)
            rel = os.path.relpath(path, repo)
            try:
                with open(path, encoding="utf-8") as fh:
                    src = fh.read()
            except OSError:
                continue
            if "run_parallel" not in src or rel == "clematis/engine/util/parallel.py":
                continue
            tree = ast.parse(src, filename=path)
            imported = any(isinstance(n, ast.ImportFrom) and (n.module or "").endswith("util.parallel")
                           and any(a.name == "run_parallel" and (a.asname or a.name) == "run_parallel" for a in n.names)
                           for n in ast.walk(tree))
            chains = _enclosing_functions(tree)
            per_fn = {}
            for call in [n for n in ast.walk(tree) if isinstance(n, ast.Call)]:
                f = call.func
                if not ((isinstance(f, ast.Name) and f.id == "run_parallel" and imported)
                        or (isinstance(f, ast.Attribute) and f.attr == "run_parallel")):
                    continue
                nsites += 1
                chain = chains.get(id(call), [])
                qual = ".".join(c.name for c in chain) or "<module>"
                k = per_fn.get(qual, 0)
                per_fn[qual] = k + 1
                ver = Verifier(R)
                I = Interp(ver, Path(ver, []))
                env = Env(None, mod)
                actual = {}
                for pn, a in zip(positional, call.args):
                    actual[pn] = a
                for kw in call.keywords:
                    if kw.arg:
                        actual[kw.arg] = kw.value
                for pn in positional + kwonly:
                    a = actual.get(pn)
                    if a is None:
                        continue
                    if isinstance(a, ast.Constant) and a.value is None:
                        env.set(pn, VNone())
                    elif isinstance(a, ast.Lambda) or (isinstance(a, ast.Name) and _binds_callable(chain, tree, a.id)):
                        env.set(pn, VFunc("param", pn))
                    else:
                        env.set(pn, VOptObj(z3.Bool("shape_unknown_%s" % pn), VFunc("param", pn)))
                here = z3.Bool("call_at_%s:%d(%s)" % (rel, call.lineno, ", ".join(
                    "%s=%s" % (kw.arg, ast.unparse(kw.value)[:40]) for kw in call.keywords if kw.arg in kwonly)))
                for nm, spec_src in contract.requires:
                    names = {n.id for n in ast.walk(ast.parse(spec_src, mode="eval")) if isinstance(n, ast.Name)}
                    if any(pn in names and pn not in env.vars for pn in positional + kwonly):
                        phi = z3.BoolVal(False)     # a required argument is not passed at all
                    else:
                        phi = I.eval_spec(spec_src, env)
                    goals.append(("%s:%s/call#%d/pre:%s" % (rel, qual, k, nm), [], z3.Implies(here, phi)))
    goals.append(("scan/found-call-sites", [], z3.BoolVal(nsites >= 1)))
    return goals


R.lemma("run_parallel-callsites", "C09", _run_parallel_callsites)


# ------------------------------------------------------------------ merge_tier_hits_across_shards_dict
# A hit is a dict of which the function reads the keys "id", "score", "_score" only: modelled as a dict-like record
# value over exactly those keys with symbolic presence (type invariant, stated here: ids are strings, scores are
# floats).  Consequence: "the same hit" in the clauses below means equal on those three keys.
SH = "clematis/engine/stages/t2/shard.py:"
R.record("HitD", {"id": "str", "has_id": "bool", "score": "float", "has_score": "bool", "_score": "float",
                  "has__score": "bool"}, dictlike=True)
R.opaque(SH + "_qscore", "qscore_of", ["float"], "int")
R.contract(SH + "_qscore", "C09", callee=False, types={"score": "float"}, returns="int",
           ensures=[("an-int-for-every-float", "True")], raises="none",
           # reals are never NaN and float(x) of a float cannot fail
           unreachable_ok=["return 0"])

SORTED_TIER = ("forall2(a, b, 0 <= a and a < b and b < len(%(o)s), otier[a] <= otier[b] and "
               "implies(otier[a] == otier[b], hit_key(%(o)s[a]) <= hit_key(%(o)s[b])))")
DISTINCT = "forall2(a, b, 0 <= a and a < b and b < len(%(o)s), hit_id(%(o)s[a]) != hit_id(%(o)s[b]))"
R.contract(
    SH + "merge_tier_hits_across_shards_dict", "C09",
    types={"shard_hits_by_tier": "List[Dict[str, List[HitD]]]", "tiers": "List[str]", "k_retrieval": "int"},
    returns="Tuple[List[HitD], List[str]]",
    # ghost outputs: otier[j] = index in `tiers` of the tier that contributed result[0][j]; opos = its position in
    # that tier's sorted cross-shard bucket
    ghost={"otier": ("List[int]", "empty"), "opos": ("List[int]", "empty")},
    asserts={
        "call:out.append": ["ghost:otier.append(_t)", "ghost:opos.append(_i)"],
        "call:bucket.sort": ["forall2(a, b, 0 <= a and a < b and b < len(bucket), hit_key(bucket[a]) <= hit_key(bucket[b]))"],
    },
    # with k_retrieval <= 0 the function returns the first hit anyway (the cap is only tested after an append)
    requires=[("k-at-least-1", "k_retrieval >= 1")],
    ensures=[
        ("at-most-k", "len(result[0]) <= k_retrieval"),
        ("ids-pairwise-distinct", DISTINCT % {"o": "result[0]"}),
        ("tier-order-then-(-qscore,id)-order",
         "len(otier) == len(result[0]) and forall(j, 0 <= j < len(otier), 0 <= otier[j] and otier[j] < len(result[1])) and " +
         SORTED_TIER % {"o": "result[0]"}),
        ("used-tiers-is-the-walked-prefix",
         "len(result[1]) <= len(tiers) and forall(j, 0 <= j < len(result[1]), result[1][j] == tiers[j]) and "
         "implies(len(result[0]) < k_retrieval, len(result[1]) == len(tiers))"),
        ("inputs-untouched", "seq_eq(tiers, old(tiers)) and seq_eq(shard_hits_by_tier, old(shard_hits_by_tier))"),
    ],
    raises="none",
    loops={
        0: {"index": "_t", "inv": [          # for tier in tiers
            "len(used_tiers) == _t and forall(j, 0 <= j < _t, used_tiers[j] == tiers[j])",
            "len(out) < k_retrieval and len(otier) == len(out) and len(opos) == len(out)",
            "forall(j, 0 <= j < len(out), 0 <= otier[j] and otier[j] < _t and hit_id(out[j]) in seen)",
            SORTED_TIER % {"o": "out"},
            DISTINCT % {"o": "out"},
        ]},
        1: {"inv": [                         # for d in shard_hits_by_tier: bucket.extend(...)
            "len(bucket) >= 0",
        ]},
        2: {"inv": [                         # for h in bucket (sorted)
            "len(out) < k_retrieval and len(otier) == len(out) and len(opos) == len(out)",
            "len(out) >= len(pre_loop(out)) and forall(j, 0 <= j < len(pre_loop(out)), out[j] == pre_loop(out)[j] and otier[j] == pre_loop(otier)[j])",
            "forall(j, len(pre_loop(out)) <= j < len(out), otier[j] == _t and 0 <= opos[j] and opos[j] < _i and out[j] == _iter[opos[j]])",
            "forall2(a, b, len(pre_loop(out)) <= a and a < b and b < len(out), opos[a] < opos[b])",
            "forall(j, 0 <= j < len(out), hit_id(out[j]) in seen)",
            DISTINCT % {"o": "out"},
        ]},
    },
    locals={"seen": "Set[str]", "out": "List[HitD]", "used_tiers": "List[str]", "bucket": "List[HitD]"},
)


# ------------------------------------------------------------------ InMemoryIndex._iter_shards_for_t2
# A generator: its yields are cut points; ghost records: nself = number of `yield self`, (ylo[j], yhi[j]) = the
# slice bounds of the j-th yielded _ShardView.  That each view holds exactly self._eps[ylo:yhi] and points back to
# this index is proved at the yield itself.
R.untype("Episode")
R.objtype("MemIndex", {"_eps": "List[Un[Episode]]"}, cls=("clematis/memory/index.py", "InMemoryIndex"))
WHOLE = "(nself == 1 and len(ylo) == 0)"
R.contract(
    "clematis/memory/index.py:InMemoryIndex._iter_shards_for_t2", "C09",
    types={"self": "MemIndex", "tier": "str", "suggested": "Optional[int]"},
    ghost={"nself": ("int", "0"), "ylo": ("List[int]", "empty"), "yhi": ("List[int]", "empty")},
    asserts={
        "yield:self": ["ghost:nself = nself + 1"],
        "yield:view": ["seq_eq(view._episodes, self._eps[start:end])", "same_obj(view._parent, self)",
                       "ghost:ylo.append(start)", "ghost:yhi.append(end)"],
    },
    ensures=[
        ("no-sharding-cases-yield-the-index-itself",
         "implies(len(self._eps) <= 1 or is_none(suggested) or some(suggested) <= 1, " + WHOLE + ")"),
        ("either-the-index-itself-once-or-views-only", WHOLE + " or (nself == 0 and len(ylo) >= 1)"),
        ("views-partition-the-episode-list-contiguously-in-order-no-overlap",
         "implies(nself == 0, len(yhi) == len(ylo) and ylo[0] == 0 and yhi[len(yhi) - 1] == len(self._eps) and "
         "forall(j, 0 <= j < len(ylo), ylo[j] < yhi[j]) and forall(j, 1 <= j < len(ylo), ylo[j] == yhi[j - 1]))"),
        ("index-untouched", "seq_eq(self._eps, old(self._eps))"),
    ],
    raises="none",
    loops={0: {"inv": [
        "nself == 0 and len(ylo) == _i and len(yhi) == _i and size >= 1 and count == len(self._eps) and count >= 2",
        "forall(j, 0 <= j < _i, ylo[j] == _iter[j] and ylo[j] < yhi[j])",
        "forall(j, 1 <= j < _i, ylo[j] == yhi[j - 1])",
        "implies(_i > 0, yhi[_i - 1] == ite(_iter[_i] < count, _iter[_i], count))",
        "seq_eq(self._eps, pre_loop(self._eps))",
    ]}},
    # chunks = int(suggested) with suggested > 1 already established: the defensive re-test is dead code
    unreachable_ok=["if chunks <= 1"],
)

# ---- completeness of the shard merge: nothing a walked tier offers is dropped while there is room.
# "Stage-level parallelism is indistinguishable from sequential execution": the sequential tier walk takes every
# non-duplicate hit of a tier until k is reached; the merge must do the same with the union of the shards' hits.
# Clause (separate variant, own invariants): if fewer than k hits are returned, the id of every hit that any shard
# offered for any tier is among the returned ids.
_S = "shard_hits_by_tier"
_ALL_TIER_IDS_SEEN = ("forall(a, 0 <= a < len(%(S)s), implies(%(T)s in %(S)s[a], "
                      "forall(i, 0 <= i < len(%(S)s[a][%(T)s]), hit_id(%(S)s[a][%(T)s][i]) in %(seen)s)))")
R.contract(
    SH + "merge_tier_hits_across_shards_dict", "C09", name="merge_tier_hits_across_shards_dict[completeness]", callee=False,
    types={"shard_hits_by_tier": "List[Dict[str, List[HitD]]]", "tiers": "List[str]", "k_retrieval": "int"},
    returns="Tuple[List[HitD], List[str]]",
    # goff[a] = position in `bucket` where shard a's hits for the current tier start (explicit witnesses)
    # gpos[s] = position in `out` of the hit whose id is s (explicit witness instead of an existential)
    ghost={"gseen": ("Set[str]", "empty"), "goff": ("List[int]", "empty"), "gpos": ("Dict[str, int]", "empty")},
    requires=[("k-at-least-1", "k_retrieval >= 1")],
    asserts={
        "seen": ["ghost:gseen = seen"],
        "call:seen.add": ["ghost:gseen = seen", "ghost:gpos[hid] = len(out) - 1"],
        "bucket": ["ghost:goff.clear()"],
        "call:bucket.extend": ["ghost:goff.append(len(bucket) - len(hits))"],
        "call:bucket.sort": ["forall(a, 0 <= a < len(%s), implies(tier in %s[a], forall(i, 0 <= i < len(%s[a][tier]), "
                             "exists(p, 0 <= p < len(bucket), bucket[p] == %s[a][tier][i]))))" % (_S, _S, _S, _S)],
    },
    ensures=[
        ("nothing-offered-is-dropped-while-there-is-room",
         "implies(len(result[0]) < k_retrieval, forall(t, 0 <= t < len(tiers), " +
         _ALL_TIER_IDS_SEEN % {"S": _S, "T": "tiers[t]", "seen": "gseen"} + "))"),
        ("returned-ids-are-exactly-the-seen-ids",
         "forall((s, 'str'), s in gseen, s in gpos and 0 <= gpos[s] and gpos[s] < len(result[0]) and hit_id(result[0][gpos[s]]) == s)"),
    ],
    raises="none",
    loops={
        0: {"index": "_t", "modifies": ["gseen", "goff", "gpos"], "inv": [
            "len(out) < k_retrieval and gseen == seen",
            "forall(t, 0 <= t < _t, " + _ALL_TIER_IDS_SEEN % {"S": _S, "T": "tiers[t]", "seen": "seen"} + ")",
            "forall((s, 'str'), s in seen, s in gpos and 0 <= gpos[s] and gpos[s] < len(out) and hit_id(out[gpos[s]]) == s)",
        ]},
        1: {"modifies": ["goff"], "inv": [
            "len(goff) == _i",
            "forall(a, 0 <= a < _i, 0 <= goff[a] and implies(tier in %s[a], goff[a] + len(%s[a][tier]) <= len(bucket) and "
            "forall(i, 0 <= i < len(%s[a][tier]), bucket[goff[a] + i] == %s[a][tier][i])))" % (_S, _S, _S, _S),
        ]},
        2: {"modifies": ["gseen", "gpos"], "inv": [
            "len(out) < k_retrieval and gseen == seen",
            "forall(p, 0 <= p < _i, hit_id(_iter[p]) in seen)",
            "forall((s, 'str'), s in pre_loop(seen), s in seen)",
            "forall((s, 'str'), s in seen, s in gpos and 0 <= gpos[s] and gpos[s] < len(out) and hit_id(out[gpos[s]]) == s)",
        ]},
    },
    locals={"seen": "Set[str]", "out": "List[HitD]", "used_tiers": "List[str]", "bucket": "List[HitD]"},
    timeout_ms=20000,
)
