"""C08 -- durable files are replaced all-or-nothing: contracts of clematis/io/atomic.py.

The I/O primitives are the trusted contracts of pyvc/fsmodel.py (abstract file system, ghost `fs`): every primitive
forks into a "raises OSError, nothing changed" outcome, so each effect boundary is a failure point, and the contract's
`fs_inv` (crash invariant) is proved at entry and after *every* state change of `fs` (= every possible kill point,
including a raw write killed half way); `fs_policy` is proved at every effect (who may write which file).

Engine additions made for this file (see also the docstrings there):
  pyvc/fsmodel.py (new), pyvc/externals.py (hook), pyvc/verifier.py (Contract.fs_inv/fs_policy/fs_opts/call_pre,
  fs_method, I.top_env), pyvc/core.py (Path.choice: demonic choice without solver query), pyvc/values.py (Path
  type/value), pyvc/concretize.py (Path in counter-models), pyvc/interp.py (Path equality/truth/fresh, extension types
  `t.fresh`, set literals, bare `raise` inside `finally` re-raises the in-flight exception, `raise <optional exception>`,
  ghost fs havoc'd at loop cuts, ghost variables visible in specs of inlined functions and in their pre_loop snapshots),
  pyvc/builtins.py (open(), fs_key(), str(Path), Path/file/exception attributes incl. OSError.errno, `with <file>`
  closes on python-level exits only and close may raise, str.encode may raise, crash invariant / effect policy /
  caller-side cut points at modular calls).

Fault alphabet.  Main contracts: OSError at every primitive (mkdir, NamedTemporaryFile, open, write, flush, fsync, close,
stat, chmod, os.replace, exists, unlink, os.open, os.close), raw write is all-or-error (A-FULLWRITE).  Variants tagged
[short-write] and [KeyboardInterrupt] widen the alphabet.

Triage (round 2).  The property demands (a) old-or-complete-new content of the destination at every instant and (b) that
a failed write leaves nothing behind *that discovery / readers could mistake for real data*.  (b) is stated as: on every
exit and in every crash state, every file that exists and did not exist before, other than the destination, is one of
this call's own temp files, whose name has the shape <final name> + "." + 8 chars of [a-z0-9_] -- lemma
`temp_name_invisible` shows such a name is never picked up.  "No temp file is left at all" is kept only on the exits
where the code guarantees it (normal exit; exceptional exit unless clean-up I/O / the temp handle's close failed / an
interrupt was delivered).  The stronger clauses that were dropped are recorded in OBSERVATIONS below.
"""
import z3

from pyvc.verifier import REG as R
from pyvc import fsmodel

fsmodel.declare(R)

AT = "clematis/io/atomic.py:"
GHOST = dict(fsmodel.GHOST)
REPLAY = "c08_atomic:replay"      # replay_builders/c08_atomic.py: fault-injected native run of the real function

FINAL = "fs_key(final_path)"
TMP = "fs_key(tmp_path)"
PREFIX = "Path(final_path).name + '.'"
# every new file other than the destination is an own temp, and own temps carry the invisible temp-name shape
NEW_FILES = ("new-files-other-than-final-are-own-temps-with-temp-names",
             "forall((p, 'str'), p in fs and not (p in old(fs)) and p != " + FINAL + ", p in fs_tmps) and "
             "forall((p, 'str'), p in fs_tmps, fs_temp_name(fs_name_of(p), " + PREFIX + "))")

# Observations that are true of the code but are NOT violations of C08 (the clauses demanding them were dropped in the
# triage: a leaked temp can never be mistaken for real data, lemma temp_name_invisible).  text + witness, for DESIGN.md.
OBSERVATIONS = [
    {"id": "make_tmp-close-leak",
     "former_clause": "_make_tmp/post-exc:no-temp-left-on-failure",
     "text": "_make_tmp creates the temp with NamedTemporaryFile(delete=False); if close() of that handle raises, the "
             "freshly created empty temp file stays behind and its name is lost.",
     "witness": "NamedTemporaryFile.__exit__ patched to raise OSError(EIO) after closing: _make_tmp(final) raises, "
                "directory contains final.json.<8 chars>"},
    {"id": "write_bytes-make_tmp-outside-try",
     "former_clause": "atomic_write_bytes/post-exc:temp-left-only-if-cleanup-io-failed",
     "text": "atomic_write_bytes calls _make_tmp() outside its try block, so the leak above is not cleaned up by the "
             "handler (every other failure after the temp exists is cleaned up unless exists()/unlink() themselves fail).",
     "witness": "same fault under atomic_write_bytes(final, b'NEWDATA'): OSError escapes, final == b'OLD', temp left"},
    {"id": "keyboard-interrupt-bypasses-cleanup",
     "former_clause": "atomic_write_bytes[KeyboardInterrupt]/post-exc:temp-left-only-if-cleanup-io-or-its-handle-close-failed",
     "text": "KeyboardInterrupt / SystemExit are not caught by `except Exception`: an interrupt delivered after the temp was "
             "created leaves it behind (as process death does); final stays old-or-complete-new.",
     "witness": "os.fsync patched to raise KeyboardInterrupt: final == b'OLD', directory contains final.json.<8 chars>"},
    {"id": "replace-mkdir-before-cleanup",
     "former_clause": "atomic_replace/post-exc:temp-removed-on-every-failure",
     "text": "atomic_replace runs final_path.parent.mkdir() before its try/cleanup: if that raises, tmp_path is not "
             "removed although the docstring promises clean-up on failure (harmless under atomic_write_bytes, whose "
             "handler removes it; for rotate_logs the 'temp' is the real source file and must stay).",
     "witness": "atomic_replace(tmp, <regular file>/sub/final.json): NotADirectoryError, tmp still exists"},
    {"id": "replace-negative-backoff",
     "former_clause": "(precondition backoff-nonneg)",
     "text": "time.sleep(delay) sits outside the try block: backoff_ms < 0 with a retryable os.replace error raises "
             "ValueError and leaves the temp.",
     "witness": "os.replace patched to raise PermissionError, backoff_ms=-10: ValueError, tmp still exists"},
]

# ------------------------------------------------------------------------------------------------ _make_tmp

R.contract(
    AT + "_make_tmp", ["C06", "C08"],
    types={"final_path": "Path"},
    returns="Path",
    ghost=GHOST, replay=REPLAY,
    fs_inv=[
        ("existing-files-untouched", "forall((p, 'str'), not (p in fs_tmps), file_same(fs, old(fs), p))"),
        ("temps-are-new-files", "forall((p, 'str'), p in fs_tmps, not (p in old(fs)))"),
        NEW_FILES,
    ],
    fs_policy=[("creates-only-new-files", "not (fs_target in old(fs)) and fs_target != " + FINAL)],
    ensures=[
        ("temp-in-same-directory", "result.parent == final_path.parent"),
        ("temp-name-is-final-name-dot-8-chars",
         "result.name.startswith(final_path.name + '.') and len(result.name) == len(final_path.name) + 9"),
        # what snapshot discovery (C06) relies on: a temp is never a `*.json` name, whatever the final name is
        ("temp-name-is-never-a-.json-name", "not result.name.endswith('.json')"),
        ("temp-is-not-final", "result != final_path"),
        ("temp-is-a-new-empty-file", "not (fs_key(result) in old(fs)) and file_is(fs, fs_key(result), '')"),
        ("temp-recorded", "fs_key(result) in fs_tmps and forall((p, 'str'), p in fs_tmps, p == fs_key(result))"),
        ("nothing-else-changed", "forall((p, 'str'), p != fs_key(result), file_same(fs, old(fs), p))"),
        NEW_FILES,
    ],
    ensures_exc=[
        ("nothing-else-changed", "forall((p, 'str'), not (p in fs_tmps), file_same(fs, old(fs), p))"),
        # no temp is left on failure unless close() of its own handle failed (OBSERVATIONS: make_tmp-close-leak)
        ("temp-left-only-if-its-handle-close-failed", "forall((p, 'str'), p in fs_tmps and p in fs, p in fs_ntfclose)"),
        NEW_FILES,
    ],
    raises=["OSError"],
    callee=False,
)

# ------------------------------------------------------------------------------------------------ atomic_replace
# requires (named, with reason):
#   tmp-not-final   the temp and the destination are different files (atomic_write_bytes proves it from the temp-name
#                   contract; rotate_logs passes distinct names) -- os.replace(x, x) is a no-op and the "temp gone" clause
#                   would be meaningless
#   backoff-nonneg  time.sleep() raises ValueError for a negative delay *outside* the try block (the temp would leak)
#   retries-at-least-one  with retries <= 0 the loop body never runs: the temp is unlinked and the function returns
#                   normally without installing anything.  The property does not speak about that degenerate call and no
#                   caller passes retries (all use the default 80), so it is excluded by precondition; the clause
#                   `normal-exit-means-installed` stays and is exported to callers.

NO_NEW_FILES = ("no-new-file-other-than-final", "forall((p, 'str'), p in fs and not (p in old(fs)), p == " + FINAL + ")")
REPLACE_REQ = [("tmp-not-final", "tmp_path != final_path"), ("backoff-nonneg", "backoff_ms >= 0"),
               ("retries-at-least-one", "retries >= 1")]
INSTALLED = "old(" + TMP + " in fs) and file_is(fs, " + FINAL + ", old(fs)[" + TMP + "])"
OTHERS_SAME = "forall((p, 'str'), p != " + FINAL + " and p != " + TMP + ", file_same(fs, old(fs), p))"
REPLACE_INV = [
    # the destination holds the old content until os.replace succeeds, then exactly the temp's content
    ("final-old-or-temp-content", "file_same(fs, old(fs), " + FINAL + ") or (" + INSTALLED + ")"),
    ("only-final-and-temp-touched", OTHERS_SAME),
    # the temp is only ever consumed (moved / unlinked), never rewritten
    ("temp-same-or-gone", "file_same(fs, old(fs), " + TMP + ") or not (" + TMP + " in fs)"),
    ("temp-sets-unchanged", "seq_eq(fs_tmps, old(fs_tmps)) and seq_eq(fs_ntfclose, old(fs_ntfclose))"),
    NO_NEW_FILES,
]
REPLACE_POLICY = [
    ("final-written-only-by-os.replace", "implies(fs_target == " + FINAL + ", fs_op == 'os.replace')"),
    ("nothing-but-final-and-temp-is-a-target", "fs_target == " + FINAL + " or fs_target == " + TMP),
]
GHOSTS_SAME = "seq_eq(fs_tmps, old(fs_tmps)) and seq_eq(fs_ntfclose, old(fs_ntfclose))"

R.contract(
    AT + "atomic_replace", "C08",
    types={"tmp_path": "Path", "final_path": "Path", "retries": "int", "backoff_ms": "int"},
    ghost=GHOST, replay=REPLAY,
    requires=REPLACE_REQ,
    fs_inv=REPLACE_INV,
    fs_policy=REPLACE_POLICY,
    ensures=[
        ("installed-when-retries-positive", "implies(retries > 0, " + INSTALLED + ")"),
        ("temp-gone", "not (" + TMP + " in fs)"),
        ("others-untouched", OTHERS_SAME),
        ("final-old-or-temp-content", "file_same(fs, old(fs), " + FINAL + ") or (" + INSTALLED + ")"),
        ("ghost-sets-unchanged", GHOSTS_SAME + " and seq_eq(fs_stuck, old(fs_stuck))"),
        ("normal-exit-means-installed", INSTALLED),
        NO_NEW_FILES,
    ],
    ensures_exc=[
        ("final-intact", "file_same(fs, old(fs), " + FINAL + ")"),
        ("others-untouched", OTHERS_SAME),
        ("temp-same-or-gone", "file_same(fs, old(fs), " + TMP + ") or not (" + TMP + " in fs)"),
        ("temp-removed-after-failed-replace",
         "implies('os.replace' in fs_called and not (" + TMP + " in fs_stuck), not (" + TMP + " in fs))"),
        ("ghost-sets-unchanged", GHOSTS_SAME),
        ("stuck-only-grows-by-temp", "forall((p, 'str'), p != " + TMP + ", (p in fs_stuck) == (p in old(fs_stuck)))"),
        # (OBSERVATIONS: replace-mkdir-before-cleanup -- a failing parent mkdir() raises before the clean-up)
        NO_NEW_FILES,
    ],
    raises=["OSError"],
    modifies=list(fsmodel.GHOST_NAMES),
    locals={"last_err": "OptOSError", "delay": "float"},
    loops={0: {"inv": [
        # retry loop: while retrying nothing has changed -- final = old, temp = new content, still to be installed
        # (pre_loop = state at loop entry = state at function entry: only mkdir ran before, which changes no file;
        #  written with pre_loop so that the invariant is also usable where atomic_replace is interpreted inline)
        "seq_eq(fs, pre_loop(fs))",
        "seq_eq(fs_tmps, pre_loop(fs_tmps)) and seq_eq(fs_ntfclose, pre_loop(fs_ntfclose)) and seq_eq(fs_stuck, pre_loop(fs_stuck))",
        "delay >= 0",
        "present(last_err) == (_i > 0)",
        "implies(_i > 0, 'os.replace' in fs_called)",
    ]}},
)

# ------------------------------------------------------------------------------------------------ atomic_write_bytes
# bytes are modelled as str (latin-1 view); `final_path: Path | str` -- both shapes are verified.

W_NEW = "file_is(fs, " + FINAL + ", data)"
W_INV = [
    # THE property: at every instant the destination holds the complete old or the complete new content
    ("final-old-or-new", "file_same(fs, old(fs), " + FINAL + ") or " + W_NEW),
    ("only-final-and-own-temps-touched",
     "forall((p, 'str'), p != " + FINAL + " and not (p in fs_tmps), file_same(fs, old(fs), p))"),
    ("own-temps-are-new-files-and-not-final",
     "forall((p, 'str'), p in fs_tmps, not (p in old(fs)) and p != " + FINAL + ")"),
    NEW_FILES,
]
W_POLICY = [
    ("final-written-only-by-os.replace", "implies(fs_target == " + FINAL + ", fs_op == 'os.replace')"),
    ("targets-are-final-or-own-temps", "fs_target == " + FINAL + " or fs_target in fs_tmps or not (fs_target in old(fs))"),
]
W_ENSURES = [
    ("final-has-complete-new-content", W_NEW),
    ("no-temp-left", "no_temp_left(fs, fs_tmps)"),
    ("others-untouched", "forall((p, 'str'), p != " + FINAL + ", file_same(fs, old(fs), p))"),
    NEW_FILES,
]
W_ENSURES_EXC = [
    ("final-intact", "file_same(fs, old(fs), " + FINAL + ")"),
    ("others-untouched", "forall((p, 'str'), not (p in fs_tmps), file_same(fs, old(fs), p))"),
    ("own-temps-are-new-files", "forall((p, 'str'), p in fs_tmps, not (p in old(fs)))"),
    # a temp may only survive a failed write when the clean-up I/O itself failed (exists()/unlink() raised) or when
    # close() of the NamedTemporaryFile handle raised inside _make_tmp (OBSERVATIONS: write_bytes-make_tmp-outside-try)
    ("temp-left-only-if-cleanup-io-or-its-handle-close-failed",
     "forall((p, 'str'), p in fs_tmps and p in fs, p in fs_stuck or p in fs_ntfclose)"),
    NEW_FILES,
]
# `fs[final] = new` only if the temp held *all* of `data` before it is installed (this is where a short write bites)
W_READY = {AT + "atomic_replace": [("temp-holds-complete-data", "file_is(fs, fs_key(tmp), data)")]}

for shape in ("Path", "str"):
    R.contract(
        AT + "atomic_write_bytes", "C08",
        name="atomic_write_bytes" if shape == "Path" else "atomic_write_bytes[final_path:str]",
        types={"final_path": shape, "data": "str"},
        ghost=GHOST, replay=REPLAY,
        fs_inv=W_INV, fs_policy=W_POLICY, call_pre=W_READY,
        ensures=W_ENSURES,
        ensures_exc=W_ENSURES_EXC,
        raises=["OSError"],
        modifies=list(fsmodel.GHOST_NAMES),
    )

# fault alphabet widened: a *raw* write (buffering=0) may be short (ENOSPC / >2 GiB).  Before /repo commit b94e079 the
# temp was opened raw and the count returned by f.write() ignored: the truncated temp was installed and the caller-side
# obligation "the temp holds the complete data before atomic_replace is called" failed (natively: final == b"NEW" for
# b"NEWDATA").  The repaired code uses a buffered handle (write/flush are all-or-error): the obligation holds, and fails
# again if buffering=0 is re-introduced or a raw write's count is ignored.
R.contract(
    AT + "atomic_write_bytes", "C08", name="atomic_write_bytes[short-write]", callee=False,
    types={"final_path": "Path", "data": "str"}, ghost=GHOST, replay=REPLAY, fs_opts={"short_write": True},
    call_pre=W_READY,
    fs_inv=[W_INV[0]],
    raises=["OSError"],
)

# fault alphabet widened: KeyboardInterrupt delivered before / after any primitive.  The file-system invariants still
# hold (they are state invariants); FINDING -- `except Exception` does not catch it, the temp file stays behind.
KI_EXC = [("final-old-or-new", W_INV[0][1]),
          ("others-untouched", W_INV[1][1]),
          NEW_FILES,
          # (OBSERVATIONS: keyboard-interrupt-bypasses-cleanup) -- no temp left unless an interrupt was delivered or ...
          ("temp-left-only-if-interrupted-or-cleanup-io-or-its-handle-close-failed",
           "implies(not ('KeyboardInterrupt' in fs_called), " + W_ENSURES_EXC[3][1] + ")")]
R.contract(
    AT + "atomic_replace", "C08", name="atomic_replace[KeyboardInterrupt]", callee=False,
    types={"tmp_path": "Path", "final_path": "Path", "retries": "int", "backoff_ms": "int"},
    ghost=GHOST, replay=REPLAY, fs_opts={"interrupt": True},
    requires=REPLACE_REQ,
    fs_inv=REPLACE_INV, fs_policy=REPLACE_POLICY,
    ensures_exc=[NO_NEW_FILES, ("final-old-or-temp-content", REPLACE_INV[0][1])],
    raises=["OSError", "KeyboardInterrupt"],
)
R.contract(
    AT + "atomic_write_bytes", "C08", name="atomic_write_bytes[KeyboardInterrupt]", callee=False,
    types={"final_path": "Path", "data": "str"}, ghost=GHOST, replay=REPLAY, fs_opts={"interrupt": True},
    fs_inv=W_INV, fs_policy=W_POLICY,
    ensures=W_ENSURES, ensures_exc=KI_EXC,
    raises=["OSError", "KeyboardInterrupt"],
)

# ------------------------------------------------------------------------------------------------ _fsync_best_effort

R.contract(
    AT + "_fsync_best_effort", "C08", callee=False,
    types={"path": "Path"}, ghost=GHOST, replay=REPLAY,
    fs_inv=[("files-untouched", "seq_eq(fs, old(fs))")],
    ensures=[("files-untouched", "seq_eq(fs, old(fs))")],
    raises="none",          # directory fsync is optional: every OSError is swallowed
)

# ------------------------------------------------------------------------------------------------ atomic_write_text

TXT = ("ite(old(newline) != '\\n', old(text).replace('\\r\\n', '\\n').replace('\\n', old(newline)), "
       "old(text).replace('\\r\\n', '\\n')).encode(old(encoding))")


def _with_data(clauses, data):
    return [(c[0], c[1].replace("data", "(" + data + ")")) + tuple(c[2:]) for c in clauses]


NOT_UTF8 = "not (encoding == 'utf-8' or encoding == 'utf8')"
R.contract(
    AT + "atomic_write_text", "C08",
    types={"final_path": "Path", "text": "str", "encoding": "str", "newline": "str"},
    ghost=GHOST, replay=REPLAY,
    fs_inv=_with_data(W_INV, TXT), fs_policy=W_POLICY,
    ensures=_with_data(W_ENSURES, TXT),
    ensures_exc=W_ENSURES_EXC,
    # encoding errors happen before the first I/O call
    raises={"OSError": None, "UnicodeError": None, "LookupError": NOT_UTF8},
    modifies=list(fsmodel.GHOST_NAMES),
)

# ------------------------------------------------------------------------------------------------ atomic_write_json

R.untype("JsonVal")
JSON = ("json.dumps(obj, sort_keys=sort_keys, separators=separators, ensure_ascii=ensure_ascii)"
        ".replace('\\r\\n', '\\n')")
R.contract(
    AT + "atomic_write_json", "C08",
    types={"final_path": "Path", "obj": "Un[JsonVal]", "sort_keys": "bool", "separators": "Tuple[str, str]",
           "ensure_ascii": "bool"},
    ghost=GHOST, replay=REPLAY,
    fs_inv=_with_data(W_INV, JSON), fs_policy=W_POLICY,
    ensures=_with_data(W_ENSURES, JSON),
    ensures_exc=W_ENSURES_EXC,
    raises=["OSError", "TypeError", "ValueError"],      # json.dumps: unserialisable / circular; UnicodeError < ValueError
    modifies=list(fsmodel.GHOST_NAMES),
)

# ------------------------------------------------------------------------------------------------ temp names are invisible


def _tmpname_lemma():
    """a temp name  <final name> + "." + 8 chars of [a-z0-9_]  is never picked up by snapshot discovery
    (`name.endswith(".json")`), by the log readers (`*.jsonl`) or by the zstd sniffing, and differs from the final name"""
    name, r, t = z3.Strings("final_name tmp_rand tmp_name")
    prefix = z3.Concat(name, z3.StringVal("."))
    # the hypothesis is exactly the predicate fs_temp_name(n, final.name + ".") of the contract clauses
    hyp = [fsmodel.temp_name_pred(t, prefix)]
    goals = [("ntf-name-has-temp-shape", [z3.InRe(r, z3.Loop(fsmodel.TMP_CHARS, 8, 8))],
              fsmodel.temp_name_pred(z3.Concat(prefix, r), prefix))]
    goals += [("never-endswith-" + suf, hyp, z3.Not(z3.SuffixOf(z3.StringVal(suf), t))) for suf in (".json", ".jsonl", ".zst")]
    goals.append(("differs-from-final-name", hyp, t != name))
    # single path component, in two steps (the solvers time out on the direct statement): (a) a name of temp shape is
    # prefix + its last 8 characters; (b) prefix + 8 characters of the class contains no separator if the name has none
    goals.append(("temp-shape-decomposes", hyp, t == z3.Concat(prefix, z3.SubString(t, z3.Length(prefix), 8))))
    goals.append(("is-a-single-path-component",
                  [t == z3.Concat(prefix, r), z3.InRe(r, z3.Loop(fsmodel.TMP_CHARS, 8, 8)),
                   z3.Not(z3.Contains(name, z3.StringVal("/")))],
                  z3.Not(z3.Contains(t, z3.StringVal("/")))))
    return goals


R.lemma("temp_name_invisible", "C08", _tmpname_lemma)

# ------------------------------------------------------------------------------------------------ callers (frame, syntactic)

CALLERS = ["clematis/engine/snapshot.py:write_snapshot", "clematis/engine/snapshot.py:_write_lines",
           "clematis/engine/snapshot.py:_write_sidecar_meta", "clematis/io/log.py:rewrite_jsonl"]
_DIRECT_WRITERS = {"replace", "rename", "renames", "move", "copyfile", "copy", "copy2", "write_text", "write_bytes",
                   "truncate", "NamedTemporaryFile", "mkstemp"}


def _callers_lemma():
    """syntactic frame check on the *current* source of the four writers named by the property: the function body
    (nested helpers are not followed) reaches its destination through atomic_write_* and contains no direct write:
    no open() in a mode other than plain reading, no os.replace/rename/shutil.move/Path.write_*"""
    import ast
    from pyvc import frontend
    goals = []
    for key in CALLERS:
        _, _, node = frontend.find_function(key)
        uses_atomic, direct = False, []
        for n in ast.walk(node):
            if not isinstance(n, ast.Call):
                continue
            f = n.func
            nm = f.id if isinstance(f, ast.Name) else (f.attr if isinstance(f, ast.Attribute) else "")
            if nm.startswith("atomic_write_") or nm == "atomic_replace":
                uses_atomic = True
            if nm == "open":
                mode = n.args[1] if len(n.args) > 1 else next((k.value for k in n.keywords if k.arg == "mode"), None)
                if mode is not None and not (isinstance(mode, ast.Constant) and mode.value in ("r", "rb", "rt")):
                    direct.append("open@%d" % n.lineno)
            if nm in _DIRECT_WRITERS:
                direct.append("%s@%d" % (nm, n.lineno))
        short = key.split(":", 1)[1]
        goals.append((short + "/writes-through-atomic_write", [], z3.BoolVal(uses_atomic)))
        goals.append((short + "/no-direct-write" + ("[" + ",".join(direct) + "]" if direct else ""), [], z3.BoolVal(not direct)))
    return goals


R.lemma("callers_use_atomic_path", "C08", _callers_lemma)
