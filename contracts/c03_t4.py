from pyvc.verifier import REG as R

R.record("ProposedDelta", {"target_kind": "str", "target_id": "str", "attr": "str", "delta": "float",
                           "op_idx": "Optional[int]", "idx": "Optional[int]"},
         pyclass="clematis.engine.types:ProposedDelta")
R.record("OpRef", {"kind": "str", "idx": "int"}, pyclass="clematis.engine.types:OpRef")
R.record("PlanOp", {"kind": "str"})
T4 = "clematis/engine/stages/t4.py:"
PD = "List[ProposedDelta]"

# callers see _canonical_key only as a deterministic function `ckey_of` of the delta; its concrete form
# (kind:id:attr) and injectivity on well-formed targets are obligations of its own contract / lemma
R.uf("ckey3", ["str", "str", "str"], "str")
R.opaque(T4 + "_canonical_key", "ckey_of")
R.contract(
    T4 + "_canonical_key", "C03", callee=False,
    types={"d": "ProposedDelta"},
    ensures=[("kind-id-attr", "result == d.target_kind + ':' + d.target_id + ':' + d.attr"),
             ("depends-on-target-only", "True")],
    raises="none",
)

# ghost recursive functions over a delta list (defined by primitive recursion on the prefix length)
R.uf("gsum", [PD, "int", "str"], "float")        # sum of deltas[j].delta, j < i, ckey_of(deltas[j]) == k
R.uf("gminop", [PD, "int", "str"], "Optional[int]")
R.uf("gminidx", [PD, "int", "str"], "Optional[int]")
R.uf("sumsq", [PD, "int"], "float")              # sum of deltas[j].delta**2, j < i
R.uf("cnt_over", [PD, "int", "float"], "int")    # number of j < i with |deltas[j].delta| > c


AX_SUMSQ = ["forall((L, 'List[ProposedDelta]'), True, sumsq(L, 0) == 0.0 and "
            "forall(i, 0 <= i < len(L), sumsq(L, i + 1) == sumsq(L, i) + L[i].delta * L[i].delta))"]


def ax_sumsq(xs):
    return AX_SUMSQ


AX_CNT = ["forall((c, 'float'), True, cnt_over(deltas, 0, c) == 0)",
          "forall(i, 0 <= i < len(deltas), forall((c, 'float'), True, cnt_over(deltas, i + 1, c) == "
          "cnt_over(deltas, i, c) + ite(absr(deltas[i].delta) > c, 1, 0)))"]
AX_GSUM = ["forall((k, 'str'), True, gsum(deltas, 0, k) == 0.0 and is_none(gminop(deltas, 0, k)) and is_none(gminidx(deltas, 0, k)))",
           "forall(i, 0 <= i < len(deltas), forall((k, 'str'), True, "
           " gsum(deltas, i + 1, k) == gsum(deltas, i, k) + ite(ckey_of(deltas[i]) == k, deltas[i].delta, 0.0) and "
           " gminop(deltas, i + 1, k) == ite(ckey_of(deltas[i]) == k, opt_min(gminop(deltas, i, k), deltas[i].op_idx), gminop(deltas, i, k)) and "
           " gminidx(deltas, i + 1, k) == ite(ckey_of(deltas[i]) == k, opt_min(gminidx(deltas, i, k), deltas[i].idx), gminidx(deltas, i, k))))"]

R.contract(
    T4 + "_min_optional_int", "C03",
    types={"a": "Optional[int]", "b": "Optional[int]"},
    returns="Optional[int]",
    ensures=[], pure_result="opt_min(a, b)", raises="none",
)

R.contract(
    T4 + "_novelty_clamp", "C03",
    types={"deltas": PD, "cap": "float"},
    returns="Tuple[List[ProposedDelta], int]",
    axioms=AX_CNT,
    ensures=[
        ("same-length", "len(result[0]) == len(deltas)"),
        ("elementwise-clip", "forall(i, 0 <= i < len(deltas), same_meta(result[0][i], deltas[i]) and "
                             "result[0][i].delta == clip(deltas[i].delta, absr(cap)))"),
        ("within-cap", "forall(i, 0 <= i < len(result[0]), absr(result[0][i].delta) <= absr(cap))"),
        ("count-exact", "result[1] == cnt_over(deltas, len(deltas), absr(cap))", "noexport"),
        ("input-untouched", "seq_eq(deltas, old(deltas))"),
    ],
    raises="none",
    loops={0: {"inv": [
        "cap == absr(pre_loop(cap)) and cap >= 0",
        "len(out) == _i",
        "forall(j, 0 <= j < _i, same_meta(out[j], deltas[j]) and out[j].delta == clip(deltas[j].delta, cap))",
        "clamped_count == cnt_over(deltas, _i, cap)",
    ]}},
    locals={"out": PD, "clamped_count": "int", "mag": "float", "new_delta": "float"},
)

R.contract(
    T4 + "_l2_scale", "C03",
    types={"deltas": PD, "cap_l2": "float"},
    returns="Tuple[List[ProposedDelta], float]",
    axioms=ax_sumsq("deltas"),
    requires=[("validator-range", "cap_l2 > 0")],
    post_setup=["lemma_l2_scaling(result[0], deltas, result[1])", "lemma_scale_sq(cap, norm, s, scale)"],
    ensures=[
        ("same-length", "len(result[0]) == len(deltas)"),
        ("uniform-scaling", "forall(i, 0 <= i < len(deltas), same_meta(result[0][i], deltas[i]) and "
                            "result[0][i].delta == deltas[i].delta * result[1])"),
        ("scale-in-unit-interval", "0 < result[1] and result[1] <= 1"),
        ("norm-within-cap", "implies(cap_l2 >= 0, sumsq(result[0], len(result[0])) <= cap_l2 * cap_l2)", "noexport"),
        ("unscaled-iff-within", "implies(sumsq(deltas, len(deltas)) <= cap_l2 * cap_l2 and cap_l2 >= 0, result[1] == 1)", "noexport"),
        ("input-untouched", "seq_eq(deltas, old(deltas))"),
    ],
    raises="none",
    loops={0: {"inv": ["s == sumsq(deltas, _i)", "s >= 0"]}},
    locals={"s": "float"},
    nonlinear=True,   # this function's own obligations need true real multiplication/division
)
# sumsq(B, i) == t*t*sumsq(A, i) whenever B is A scaled by t (proved by induction in lemma 'l2_scaling')
R.ghostfun("lemma_l2_scaling", ["B", "A", "t"],
           requires=["len(A) == len(B)", "forall(j, 0 <= j < len(A), B[j].delta == A[j].delta * t)"],
           ensures=["forall(i, 0 <= i <= len(A), sumsq(B, i) == t * t * sumsq(A, i))"])
R.ghostfun("lemma_scale_sq", ["c", "r", "s", "t"], requires=["r * r == s", "r != 0", "t == c / r"], ensures=["t * t * s == c * c"])


R.ghostfun("lemma_scale_shrinks", ["t"], requires=["0 < t", "t <= 1"],
           ensures=["forall((x, 'float'), True, absr(x * t) <= absr(x))"])


def _l2_lemma():
    import z3
    # induction on i for fixed arbitrary A, B, t:  P(i) := sumsq(B,i) == t*t*sumsq(A,i)
    sA = z3.Function("sA", z3.IntSort(), z3.RealSort())
    sB = z3.Function("sB", z3.IntSort(), z3.RealSort())
    dA = z3.Function("dA", z3.IntSort(), z3.RealSort())
    dB = z3.Function("dB", z3.IntSort(), z3.RealSort())
    t = z3.Real("t")
    i, n = z3.Ints("i n")
    defs = [sA(0) == 0, sB(0) == 0, 0 <= i, i < n,
            sA(i + 1) == sA(i) + dA(i) * dA(i), sB(i + 1) == sB(i) + dB(i) * dB(i), dB(i) == dA(i) * t]
    c, r, s2, t2 = z3.Reals("c r s2 t2")
    x = z3.Real("x")
    ab = lambda e: z3.If(e >= 0, e, -e)
    return [("scale_shrinks", [0 < t, t <= 1], ab(x * t) <= ab(x)),
            ("scale_sq", [r * r == s2, r != 0, t2 == c / r], t2 * t2 * s2 == c * c),
            ("base", [sA(0) == 0, sB(0) == 0], sB(0) == t * t * sA(0)),
            ("step", defs + [sB(i) == t * t * sA(i)], sB(i + 1) == t * t * sA(i + 1))]


R.lemma("l2_scaling", "C03", _l2_lemma)

ACC = "Dict[str, Tuple[float, Optional[int], Optional[int], ProposedDelta]]"
R.contract(
    T4 + "_combine_by_ckey", "C03",
    types={"deltas": PD},
    returns=PD,
    axioms=AX_GSUM,
    ensures=[
        ("one-per-target-sorted", "forall2(i, j, 0 <= i and i < j and j < len(result), ckey_of(result[i]) < ckey_of(result[j]))"),
        ("sum-of-group", "forall(i, 0 <= i < len(result), result[i].delta == gsum(deltas, len(deltas), ckey_of(result[i])))"),
        ("min-provenance", "forall(i, 0 <= i < len(result), result[i].op_idx == gminop(deltas, len(deltas), ckey_of(result[i])) and "
                           "result[i].idx == gminidx(deltas, len(deltas), ckey_of(result[i])))", "noexport"),
        ("only-proposed-targets", "forall(i, 0 <= i < len(result), exists(j, 0 <= j < len(deltas), "
                                  "deltas[j].target_kind == result[i].target_kind and deltas[j].target_id == result[i].target_id "
                                  "and deltas[j].attr == result[i].attr))"),
        ("every-target-kept", "forall(j, 0 <= j < len(deltas), exists(i, 0 <= i < len(result), ckey_of(result[i]) == ckey_of(deltas[j])))", "noexport"),
        ("input-untouched", "seq_eq(deltas, old(deltas))"),
    ],
    raises="none",
    loops={
        0: {"inv": [
            "forall(j, 0 <= j < _i, ckey_of(deltas[j]) in accum)",
            "forall((k, 'str'), k in accum, ckey_of(accum[k][3]) == k and "
            "  exists(j, 0 <= j < _i, deltas[j] == accum[k][3]))",
            "forall((k, 'str'), k in accum, accum[k][0] == gsum(deltas, _i, k) and accum[k][1] == gminop(deltas, _i, k) "
            "  and accum[k][2] == gminidx(deltas, _i, k))",
            "forall((k, 'str'), not (k in accum), gsum(deltas, _i, k) == 0.0 and is_none(gminop(deltas, _i, k)) "
            "  and is_none(gminidx(deltas, _i, k)))",
        ]},
        1: {"inv": [
            "len(combined) == _i",
            "forall(j, 0 <= j < _i, ckey_of(combined[j]) == _iter[j] and combined[j].delta == accum[_iter[j]][0] and "
            " combined[j].op_idx == accum[_iter[j]][1] and combined[j].idx == accum[_iter[j]][2] and "
            " combined[j].target_kind == accum[_iter[j]][3].target_kind and combined[j].target_id == accum[_iter[j]][3].target_id "
            " and combined[j].attr == accum[_iter[j]][3].attr)",
        ]},
    },
    locals={"accum": ACC, "combined": PD, "new_delta": "float", "new_op_idx": "Optional[int]", "new_idx": "Optional[int]",
            "cur_delta": "float", "cur_op_idx": "Optional[int]", "cur_idx": "Optional[int]", "exemplar": "ProposedDelta"},
)

R.contract(
    T4 + "_churn_cap", "C03",
    types={"deltas": PD, "k": "int"},
    returns="Tuple[List[ProposedDelta], int]",
    requires=[("validator-range", "k >= 0")],
    ensures=[
        ("within-cap", "len(result[0]) <= k"),
        ("all-kept-when-small", "implies(len(deltas) <= k, seq_eq(result[0], deltas) and result[1] == 0)", "noexport"),
        ("drop-count", "implies(len(deltas) > k, len(result[0]) == k and result[1] == len(deltas) - k)"),
        ("kept-are-inputs", "forall(i, 0 <= i < len(result[0]), exists(j, 0 <= j < len(deltas), deltas[j] == result[0][i]))"),
        ("kept-ranked", "implies(len(deltas) > k, forall(i, 0 <= i < len(result[0]), forall(j, i < j < len(result[0]), "
                        "(0 - absr(result[0][i].delta), ckey_of(result[0][i])) <= (0 - absr(result[0][j].delta), ckey_of(result[0][j])))))", "noexport"),
        ("dropped-rank-below-kept",
         "forall(j, 0 <= j < len(deltas), exists(m, 0 <= m < len(result[0]), result[0][m] == deltas[j]) or "
         " forall(i, 0 <= i < len(result[0]), (0 - absr(result[0][i].delta), ckey_of(result[0][i])) <= (0 - absr(deltas[j].delta), ckey_of(deltas[j]))))", "noexport"),
        ("distinct-targets-preserved",
         "implies(forall2(i, j, 0 <= i and i < len(deltas) and 0 <= j and j < len(deltas) and i != j, ckey_of(deltas[i]) != ckey_of(deltas[j])), "
         " forall2(i, j, 0 <= i and i < j and j < len(result[0]), ckey_of(result[0][i]) != ckey_of(result[0][j])))"),
        ("input-untouched", "seq_eq(deltas, old(deltas))"),
    ],
    raises="none",
)

R.contract(
    T4 + "_get_op_kind", "C03",
    unreachable_ok=["if isinstance(op, dict)", "return str(op.get", "return ''"],   # ops are records with a .kind here
    types={"ops": "List[PlanOp]", "idx": "int"},
    returns="str",
    pure_result="ite(0 - len(ops) <= idx and idx < len(ops), ops[ite(idx < 0, idx + len(ops), idx)].kind, '')",
    raises="none",
)

R.objtype("T4Ctx", {"turn_id": "int", "config": "T4Config"})
R.dictrec("T4CfgDict", {"delta_norm_cap_l2": "float", "novelty_cap_per_node": "float", "churn_cap_edges": "int",
                        "cooldowns": "Dict[str, int]"})
R.objtype("T4Config", {"t4": "T4CfgDict"})
R.dictrec("T4Meta", {"cooldowns": "Dict[str, int]"})
R.dictrec("T4State", {"meta": "T4Meta"})
BLOCKED = ("(0 <= %(i)s and %(i)s < len(ops) and ops[%(i)s].kind != '' and ops[%(i)s].kind in cooldowns and "
           "cooldowns[ops[%(i)s].kind] != 0 and ops[%(i)s].kind in state['meta']['cooldowns'] and "
           "ctx.turn_id - state['meta']['cooldowns'][ops[%(i)s].kind] < cooldowns[ops[%(i)s].kind])")
R.contract(
    T4 + "_collect_blocked_ops", "C03",
    types={"ops": "List[PlanOp]", "state": "T4State", "ctx": "T4Ctx", "cooldowns": "Dict[str, int]"},
    returns="Set[int]",
    ensures=[
        ("blocked-iff-in-cooldown", "forall(i, True, (i in result) == " + BLOCKED % {"i": "i"} + ")"),
        ("inputs-untouched", "seq_eq(ops, old(ops)) and seq_eq(cooldowns, old(cooldowns)) and "
                             "seq_eq(state['meta']['cooldowns'], old(state['meta']['cooldowns']))"),
    ],
    raises="none",
    loops={0: {"inv": [
        "forall(j, True, (j in blocked) == (j < _i and " + BLOCKED % {"i": "j"} + "))",
        "turn == ctx.turn_id",
    ]}},
    locals={"blocked": "Set[int]", "kind": "str", "cd": "Optional[int]", "last_t": "Optional[int]"},
)

INC = "forall2(i, j, 0 <= i and i < j and j < len(%(x)s), ckey_of(%(x)s[i]) < ckey_of(%(x)s[j]))"
VAL0 = "forall(i, 0 <= i < len(%(x)s), %(x)s[i].delta == gsum(plan.deltas, len(plan.deltas), ckey_of(%(x)s[i])))"
PROPOSED = ("forall(i, 0 <= i < len(%(x)s), exists(j, 0 <= j < len(plan.deltas), plan.deltas[j].target_kind == %(x)s[i].target_kind "
            "and plan.deltas[j].target_id == %(x)s[i].target_id and plan.deltas[j].attr == %(x)s[i].attr))")
R.objtype("T4Plan", {"ops": "List[PlanOp]", "deltas": PD})
AP = "result.approved_deltas"
NB = "not " + BLOCKED.replace("cooldowns[", "ctx.config.t4['cooldowns'][").replace("in cooldowns", "in ctx.config.t4['cooldowns']").replace("ops", "plan.ops")
R.contract(
    T4 + "t4_filter", "C03",
    types={"ctx": "T4Ctx", "state": "T4State", "t1": "None", "t2": "None", "plan": "T4Plan", "utter": "None"},
    # gsum(...) is used here only as an opaque term carried from _combine_by_ckey's contract: no recursive axioms needed
    requires=[("validator-ranges", "ctx.config.t4['churn_cap_edges'] >= 0 and ctx.config.t4['delta_norm_cap_l2'] > 0 "
                                   "and ctx.config.t4['novelty_cap_per_node'] > 0")],
    ensures=[
        ("canonical-order-one-per-target",
         "forall2(i, j, 0 <= i and i < j and j < len(" + AP + "), ckey_of(" + AP + "[i]) < ckey_of(" + AP + "[j]))"),
        ("novelty-cap", "forall(i, 0 <= i < len(" + AP + "), absr(" + AP + "[i].delta) <= ctx.config.t4['novelty_cap_per_node'])"),
        ("churn-cap", "len(" + AP + ") <= ctx.config.t4['churn_cap_edges']"),
        ("only-proposed-targets",
         "forall(i, 0 <= i < len(" + AP + "), exists(j, 0 <= j < len(plan.deltas), plan.deltas[j].target_kind == " + AP + "[i].target_kind "
         "and plan.deltas[j].target_id == " + AP + "[i].target_id and plan.deltas[j].attr == " + AP + "[i].attr))"),
        ("no-cooldown-origin",
         "forall(i, 0 <= i < len(" + AP + "), is_none(" + AP + "[i].op_idx) or " + NB % {"i": "some(" + AP + "[i].op_idx)"} + ")"),
        ("rejected-ops-reported-ascending",
         "forall(i, 0 <= i < len(result.rejected_ops), " + NB[4:] % {"i": "result.rejected_ops[i].idx"} + " and "
         " result.rejected_ops[i].kind == plan.ops[result.rejected_ops[i].idx].kind) and "
         "forall(i, 0 <= i < len(result.rejected_ops), forall(j, i < j < len(result.rejected_ops), "
         " result.rejected_ops[i].idx < result.rejected_ops[j].idx)) and "
         "forall(m, " + NB[4:] % {"i": "m"} + ", exists(i, 0 <= i < len(result.rejected_ops), result.rejected_ops[i].idx == m))"),
        ("pipeline-value",
         "forall(i, 0 <= i < len(" + AP + "), " + AP + "[i].delta == "
         "clip(gsum(plan.deltas, len(plan.deltas), ckey_of(" + AP + "[i])), ctx.config.t4['novelty_cap_per_node']) "
         "* result.metrics['clamps']['l2_scale'])"),
        ("scale-unit", "0 < result.metrics['clamps']['l2_scale'] and result.metrics['clamps']['l2_scale'] <= 1"),
        ("arguments-untouched", "seq_eq(plan.deltas, old(plan.deltas)) and seq_eq(plan.ops, old(plan.ops)) and "
                                "seq_eq(state['meta']['cooldowns'], old(state['meta']['cooldowns']))"),
    ],
    raises="none",
    locals={"reasons": "List[str]"},
    asserts={
        "deltas_in": ["seq_eq(deltas_in, plan.deltas)"],
        "combined": [INC % {"x": "combined"}, VAL0 % {"x": "combined"}, PROPOSED % {"x": "combined"}],
        "after_cd": [INC % {"x": "after_cd"}, VAL0 % {"x": "after_cd"}, PROPOSED % {"x": "after_cd"},
                     "forall(i, 0 <= i < len(after_cd), is_none(after_cd[i].op_idx) or not (some(after_cd[i].op_idx) in blocked_ops))"],
        "clamped": [INC % {"x": "clamped"}, PROPOSED % {"x": "clamped"},
                    "forall(i, 0 <= i < len(clamped), is_none(clamped[i].op_idx) or not (some(clamped[i].op_idx) in blocked_ops))",
                    "forall(i, 0 <= i < len(clamped), clamped[i].delta == clip(gsum(plan.deltas, len(plan.deltas), ckey_of(clamped[i])), "
                    "  ctx.config.t4['novelty_cap_per_node']) and absr(clamped[i].delta) <= ctx.config.t4['novelty_cap_per_node'])"],
        "scaled": ["forget-vars:combined,after_cd", "ghost:lemma_scale_shrinks(scale)", INC % {"x": "scaled"}, PROPOSED % {"x": "scaled"}, "0 < scale and scale <= 1",
                   "forall(i, 0 <= i < len(scaled), is_none(scaled[i].op_idx) or not (some(scaled[i].op_idx) in blocked_ops))",
                   "forall(i, 0 <= i < len(scaled), scaled[i].delta == clip(gsum(plan.deltas, len(plan.deltas), ckey_of(scaled[i])), "
                   "  ctx.config.t4['novelty_cap_per_node']) * scale and absr(scaled[i].delta) <= ctx.config.t4['novelty_cap_per_node'])"],
        "approved": ["forget-vars:clamped", "forall2(i, j, 0 <= i and i < j and j < len(approved), ckey_of(approved[i]) != ckey_of(approved[j]))",
                     PROPOSED % {"x": "approved"}, "len(approved) <= ctx.config.t4['churn_cap_edges']",
                     "forall(i, 0 <= i < len(approved), is_none(approved[i].op_idx) or not (some(approved[i].op_idx) in blocked_ops))",
                     "forall(i, 0 <= i < len(approved), approved[i].delta == clip(gsum(plan.deltas, len(plan.deltas), ckey_of(approved[i])), "
                     "  ctx.config.t4['novelty_cap_per_node']) * scale and absr(approved[i].delta) <= ctx.config.t4['novelty_cap_per_node'])"],
    },
)
