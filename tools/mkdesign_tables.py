#!/usr/bin/env python3
"""Rewrites the generated blocks of DESIGN.md (between <!-- BEGIN:x --> / <!-- END:x --> markers) from MANIFEST.json,
known_findings.json and seeded/*/{meta,detect}.json, so the tables cannot drift from what the checks do."""
import json
import os
import re

ROOT = os.path.dirname(os.path.dirname(os.path.abspath(__file__)))


def load(p):
    with open(os.path.join(ROOT, p)) as f:
        return json.load(f)


def block_status():
    m = load("MANIFEST.json")
    kf = load("known_findings.json")
    out = []
    for c in m["checks"]:
        pid = c["property_id"]
        out.append("#### %s — %s" % (pid, c["level_claimed"]["category"]))
        out.append("")
        out.append("*Decided.* " + c["level_claimed"]["text"])
        out.append("")
        out.append("*Not decided / assumed.* " + c["level_note"])
        ev = None
        try:
            ev = load("evidence/%s.json" % pid)
        except Exception:
            pass
        if ev:
            cov = ev.get("coverage", {}) or {}
            bits = ["obligations=%s" % cov.get("obligations"), "discharged=%s" % cov.get("discharged"),
                    "functions under contract=%d" % len(cov.get("functions_under_contract", []) or []),
                    "bounded=%d" % len(cov.get("bounded", []) or []), "back ends=%s" % json.dumps(cov.get("by_backend", {})),
                    "solver %.0f s, wall %.0f s" % (cov.get("solver_s", 0) or 0, ev.get("wall_s", 0) or 0)]
            out.append("")
            out.append("*Last evidence (quick tier).* " + ", ".join(bits))
        fx = [e for e in kf["fixed"] if e["property"] == pid]
        fd = [e for e in kf["findings"] if e["property"] == pid]
        if fx or fd:
            out.append("")
        for e in fx:
            out.append("* repaired (`%s`): obligation `%s` — %s" % (e["commit"], e["obligation"], e["text"].split(" ", 3)[-1] if e["text"].startswith("fixed:") else e["text"]))
        for e in fd:
            out.append("* known finding: obligation `%s` — %s" % (e["obligation"], e["text"]))
        out.append("")
    for na in m["not_applicable"]:
        out.append("#### %s — not claimed" % na["property_id"])
        out.append("")
        out.append(na["reason"])
        out.append("")
    return "\n".join(out)


def block_seeds():
    rows = ["| seed | what the change does (agent's summary, shortened) | needs to manifest | check exit | failed obligations (first two) |",
            "|---|---|---|---|---|"]
    sd = os.path.join(ROOT, "seeded")
    for d in sorted(os.listdir(sd)):
        try:
            meta = load("seeded/%s/meta.json" % d)
        except Exception:
            continue
        try:
            det = load("seeded/%s/detect.json" % d)
        except Exception:
            det = {}
        summ = re.sub(r"\s+", " ", str(meta.get("summary", "")))[:260].replace("|", "/")
        need = re.sub(r"\s+", " ", str(meta.get("needs_to_manifest", "")))[:160].replace("|", "/")
        exits = ", ".join("%s: %s" % (p, v.get("exit")) for p, v in det.items())
        obl = []
        for p, v in det.items():
            for l in v.get("lines", []):
                if l.startswith("FAILED OBLIGATION"):
                    obl.append("`" + l[len("FAILED OBLIGATION "):].replace("|", "/") + "`")
                elif "ERRORS" in l:
                    obl.append("undecided: " + l.split("ERRORS:", 1)[1].strip()[:90].replace("|", "/"))
        rows.append("| %s | %s | %s | %s | %s |" % (d, summ, need, exits, "; ".join(obl[:2]) or "—"))
    return "\n".join(rows)


BLOCKS = {"status": block_status, "seeds": block_seeds}


def main():
    p = os.path.join(ROOT, "DESIGN.md")
    s = open(p).read()
    for name, fn in BLOCKS.items():
        a, b = "<!-- BEGIN:%s -->" % name, "<!-- END:%s -->" % name
        if a in s and b in s:
            i, j = s.index(a) + len(a), s.index(b)
            s = s[:i] + "\n" + fn() + "\n" + s[j:]
    open(p, "w").write(s)


if __name__ == "__main__":
    main()
