#!/usr/bin/env python3
"""regenerates MANIFEST.json from the table below (keeps it valid at all times)."""
import json, os
ROOT = os.path.dirname(os.path.dirname(os.path.abspath(__file__)))
ALL = ["C%02d" % i for i in range(1, 21)]

CLAIMED = {
    "C15": {
        "text": "Contract-based deductive proof: representation invariants (entry/byte caps, exact byte accounting, duplicate-free "
                "LRU order, queue = key set) are preconditions and postconditions of every public operation of LRUBytes, "
                "DeterministicLRUSet, DeterministicLRU (both copies) and DedupeRing, verified from an arbitrary well-formed state "
                "for all keys/costs/capacities with inductive loop invariants (no bound). This is exactly 'after every prefix of "
                "every operation sequence'.",
        "note": "Trusted: pyvc semantics of the subset, z3/cvc5, finite-map lemmas (sum over a map, pigeonhole) instantiated not proved, "
                "on_evict callbacks may raise Exception and have no other effect. Not decided: real thread interleavings "
                "(lock wrappers are checked for lock discipline only), TTL vs a non-injected clock.",
        "design": "DESIGN.md section 3 C15",
    },
    "C17": {
        "text": "Contract-based deductive proof of next_turn / on_yield / init_scheduler_state / _should_yield against postconditions "
                "taken from the property statement (eligibility, lex-min reset, round-robin first eligible, fair-queue max tier then lex, "
                "purity, yield-reason precedence), plus the starvation bound 2(N-1)mct+1 as an inductive lemma over those contracts "
                "for N=1..6 agents with symbolic allowance.",
        "note": "Precondition: agent ids are non-empty strings. Lemma is per N (1..6), not for unbounded N. x//y with symbolic divisor is "
                "an uninterpreted function. Stage-side budget clamps and run_turn yield sites are not covered by this check yet.",
        "design": "DESIGN.md section 3 C17",
    },
}
CLAIMED.update({
    "C03": {
        "text": "Contract-based deductive proof of every function of the meta-filter (t4.py): _combine_by_ckey (sum per canonical key via ghost recursive "
                "sums, strictly increasing keys, only proposed targets), _collect_blocked_ops (blocked iff in cooldown), _novelty_clamp "
                "(elementwise clip, exact count), _l2_scale (uniform scaling, squared norm <= cap^2 via an inductive ghost lemma), _churn_cap "
                "(top-K by (-|d|, key), kept are inputs, distinct targets preserved), _get_op_kind, _min_optional_int, and the composition "
                "t4_filter: canonical order, one delta per target, novelty cap, churn cap, no cooldown origin, only proposed targets, rejected "
                "ops ascending and complete, pipeline value clip(sum)*scale, arguments untouched. All inputs, unbounded lists.",
        "note": "Floats are mathematical reals (the float duplicate-sum order dependence is therefore invisible here and is documented in DESIGN.md); "
                "ProposedDelta/op shapes as declared; _canonical_key is opaque to callers (a function of the three target fields; injectivity on "
                "':'-free attrs is a separate string lemma, not needed for these clauses); the L2 bound is proved for _l2_scale's output and "
                "carried to the approved list only as 'approved is a sub-permutation of the scaled list' (sum over a sub-multiset not proved).",
        "design": "DESIGN.md section 3 C03",
    },
    "C04": {
        "text": "Contract-based deductive proof of apply_changes over an abstract store (function-valued parameter that may raise; every call "
                "recorded in ghost state): batch first with exactly the approved list, no further call if it returned, otherwise each delta once "
                "in order continuing past failures; version bumped exactly once (int+1 or restart at '1'); invalidation only in on-apply mode, "
                "in configured order; snapshot exactly on the cadence with the new version; no exception escapes. Plus Engine-F clauses on "
                "run_turn: t4_filter/apply_changes/gel_tick/t4.jsonl/apply.jsonl are dominated by the kill switch, called once, approved list "
                "handed over unmodified.",
        "note": "write_snapshot is an assumed contract here (records the request, does not raise); int(str) parsing is abstract except on digit "
                "strings; what a concrete store does with the deltas is not decided.",
        "design": "DESIGN.md section 3 C04",
    },
    "C02": {
        "text": "Engine-F gate-dominance clauses over the real AST: every effectful entry point of a gated feature (T1/T2 run_parallel, GEL observe/"
                "tick/merge/split/promotion and gel.jsonl, scheduler events and boundary checks, reflection compute) is reachable only with its "
                "gate open (z3 on the boolean abstraction of the guards on the path); gate variables are bound once to the documented "
                "expression; slice budgets are removed from ctx when the scheduler is off.",
        "note": "Decides inertness only as 'gated code is unreachable with the gate closed'. The relational claim (equal logs/state with and "
                "without the subtree) and value flow of gated config into ungated code are not decided. Dynamic indirections taken at face value.",
        "design": "DESIGN.md section 3 C02",
    },
    "C19": {
        "text": "Engine-F clauses: reflection compute is dominated by the triple gate (not dry-run, allow_reflection, plan flag), called once, "
                "inside a catch-all handler; on error and on wall-budget overrun the result carries no memory entries; the writer runs only "
                "with a non-empty result, telemetry only with a result; compute, write and telemetry cannot escape run_turn.",
        "note": "Per-function claims of reflect()/write_reflection_entries (caps, token limit, deterministic ids) are not yet under contract in "
                "this check.",
        "design": "DESIGN.md section 3 C19",
    },
    "C20": {
        "text": "Engine-F no-escape clauses for every declared fail-soft site: boot snapshot load, GEL merge/split/promotion (and their candidate "
                "generators), reflection compute/write/telemetry, LLM adapter construction, hybrid rerank / fusion / MMR in apply_quality, "
                "sidecar write; store apply errors and cache invalidation errors are covered by the C04 contract of apply_changes "
                "(raises none with a raising store).",
        "note": "Decides 'an exception at the site cannot leave the enclosing function'. Equality of the emitted records with a fault-free run "
                "is not decided. Handlers are required to contain no raise statement; calls inside handlers are not analysed further.",
        "design": "DESIGN.md section 3 C20",
    },
})
CLAIMED.update({
    "C05": {
        "text": "Engine-F key-determinacy clauses (half (ii) of cache transparency): for the T1 stage cache, the T2 stage cache and the turn-level "
                "cache, every declared input of the fresh computation that is read after the lookup, and every configuration key read after "
                "the lookup, feeds the key expression (name-level dependency closure over the bindings preceding the lookup, computed from "
                "the AST on every run); the graph etag used as version component hashes graph content. Half (i) (a hit returns the value "
                "stored under an equal key) is the C15 container contracts. Four violated clauses were repaired in /repo (fix: commits), "
                "two are recorded as known findings.",
        "note": "Name-level closure: a whole object (ctx, state, index) counts as feeding the key when any value derived from it does; "
                "index_version() and state.version_etag are trusted to change with content; TTL vs the real clock, memory pressure and the "
                "relational claim over mutation histories are not decided.",
        "design": "DESIGN.md section 3 C05",
    },
    "C09": {
        "text": "Contract-based deductive proof of run_parallel over opaque tasks with an arbitrary failing subset: both branches hand merge_fn "
                "every (key, result) once, ordered by (order_key, submit index); failures: merge not called, sequential stops at the first, "
                "the pool reports every failure sorted; all run_parallel call sites in /repo satisfy its precondition (AST obligations); "
                "merge_tier_hits_across_shards_dict (<= k distinct ids, tier order, (-qscore,id)), _iter_shards_for_t2 (contiguous partition).",
        "note": "ThreadPoolExecutor.submit/Future.result is a trusted model (results read in submit order). Equality of the parallel and "
                "sequential T1/T2 stage results (fold equivalence, shard path vs. tier walk) is NOT decided by this check; real thread "
                "interleavings are not modelled. Precondition k >= 1 on the shard merge.",
        "design": "DESIGN.md section 3 C09",
    },
    "C10": {
        "text": "Contract-based deductive proof of _select_independent_batch (subsequence, <= max(1,workers), pairwise disjoint graph sets, "
                "greedy-maximal), _resolve_graphs_for_agent (never raises), _sort_turn_buffers (stable permutation by (turn, slice)), and "
                "the two drain-flush-retry regions of _run_agents_parallel_batch against the LogStager interface: record staged last, "
                "whole buffer flushed in drain order on back-pressure, nothing lost or duplicated, no exception for any byte limit >= 1.",
        "note": "The LogStager interface used by the regions is an assumed contract here (the class itself is under contract in C16). "
                "Equality of batch and sequential execution with the real stage pipeline is not decided (the dry-run path skips T3: see DESIGN).",
        "design": "DESIGN.md section 3 C10",
    },
})
CLAIMED.update({
    "C08": {
        "text": "Contract-based deductive proof of _make_tmp, atomic_write_bytes (Path and str destinations, KeyboardInterrupt and short-write "
                "variants), atomic_replace (retry loop with an unbounded invariant), atomic_write_text/json over an abstract file system in "
                "which every I/O primitive forks into a failing path: the crash invariant content(final) in {old, complete new} is proved at "
                "entry and after every effect (including a write killed half way), the only writer of final is os.replace(tmp, final), on "
                "normal exit final == new and no temp is left, every new file other than final is one of the call's own temps, whose names "
                "(lemma, z3 strings) never look like snapshot or log files; callers reach their destination only through atomic_write_*.",
        "note": "The file system is a trusted model (pyvc/fsmodel.py): os.replace atomic and all-or-nothing, raw write all-or-error unless the "
                "short_write option is on, buffered handles complete-or-raise. Durability after power loss, directories/permissions/symlinks "
                "and real concurrent readers are not modelled. Preconditions: tmp != final, retries >= 1, backoff_ms >= 0.",
        "design": "DESIGN.md section 3 C08",
    },
    "C16": {
        "text": "Contract-based deductive proof of normalize_for_identity (only the documented volatile keys of the identity streams change, "
                "input not mutated, idempotent), LogStager (bytes = sum of estimates, back-pressure iff buffered and over the limit, sorted "
                "drain, drain-then-stage never raises for any byte limit), default_key_for, _append_jsonl_unbuffered (one 'ab' open, one "
                "write of one LF-terminated line), append_jsonl / LogMux / flush (captured xor written, in order), rewrite_jsonl (line i = "
                "canonical dump of record i through atomic_write_text), rotate_one (generations shift by one, only the oldest dropped, also "
                "when a rename fails).",
        "note": "json.dumps is an uninterpreted function with the trusted fact 'no raw LF/CR in the output'; bytes are modelled as text; "
                "open/write and the rotation name space are small trusted models; O_APPEND atomicity and concurrent writers from several "
                "processes are assumed, not proved; rotate_one's failure clauses are proved for 1 and 2 kept generations.",
        "design": "DESIGN.md section 3 C16",
    },
})
CLAIMED.update({
    "C18": {
        "text": "Contract-based deductive proof of gel.py: _edge_key (canonical undirected key), _clamp, observe_retrieval (gate off: "
                "untouched; used = first top_k of the items above threshold under (-score,id); pairs <= pair_cap; only canonical keys of "
                "used pairs written, weights inside the clamp, everything else unchanged), tick (factor in (0,1], no key added, removed iff "
                "|w*f| < floor, |w'| <= |w|, counters exact), apply_merge/apply_split (annotation only), apply_promotion (concept node and "
                "concept-member edges only; idempotent), promote_clusters (pure, sorted); history lemma 'weights stay inside the clamp' "
                "proved for observe always and for tick when clamp_min <= 0 <= clamp_max (the validator-accepted clamp_min > 0 case is a "
                "known finding).",
        "note": "Floats are reals (NaN not modelled; spot-checked natively that NaN fails the threshold test); edge records have the fixed "
                "layout of gel.py; items are (id, score) tuples; order-insensitivity of observe is implied by the selection clauses for "
                "distinct (id, score) pairs but not machine-checked as a two-run lemma.",
        "design": "DESIGN.md section 3 C18",
    },
})
CLAIMED["C15"]["text"] += (" Also cache.py: _NamespaceCache / LRUCache / CacheManager over an insertion-ordered map model (TTL with the injected "
    "clock, oldest-first eviction, exact counters, namespace isolation with verified frames), ThreadSafe wrappers (Engine-F lock discipline: "
    "every method body is one `with self._lock` block and _inner is touched only inside it), merge_caches_deterministic (sorted worker and "
    "key order, first-wins).")
CLAIMED["C15"]["note"] += " CacheManager is verified for fixed namespace shapes (two existing + one new namespace); invalidate_all/stats are bounded to that shape."
CLAIMED["C19"]["text"] += (" Per-function contracts: _truncate_tokens (<= max(limit,0) tokens), _reflect_rulebased/_reflect_llm (<= 1 entry, 0 when "
    "ops cap <= 0, summary within the token limit), write_reflection_entries (written <= min(entries, cap), never raises), _episode_id / "
    "_now_iso_from_ctx (functions of agent, turn, slot, text / now_iso, now_ms only).")
CLAIMED["C19"]["note"] = ("whitespace split/join: four stated axioms (pyvc/verifier.split_join_axioms); sha256 and _normalize are uninterpreted deterministic functions; the LLM fixture "
    "adapter and the embedding are trusted; fixture files are not modelled.")
CLAIMED.update({
    "C06": {
        "text": "Contract-based deductive proof of the snapshot helpers: _clamp, _round6, _edge_id (symmetric), _graph_bounds_from_cfg, "
                "_sanitize_gel_for_write (canonical keys, the six documented fields, weight = round6(clamp(w)) or 0.0 under eps, exact "
                "counters, input untouched; S(S(g)) = S(g)), _sanitize_gel_for_load, store export/import and their round trip, "
                "_pick_latest_snapshot_path over an abstract directory listing (result is a listed *.json, never a sidecar or a temp name, "
                "never raises).",
        "note": "round(x,6) is uninterpreted with four listed trusted facts; floats are reals plus one NaN value; write_snapshot / "
                "load_latest_snapshot end to end and the byte-for-byte fixpoint are not under contract; list-form graphs are outside the "
                "stated input shape; 'highest snap number wins' is checked on one concrete listing only (bounded).",
        "design": "DESIGN.md section 3 C06",
    },
    "C07": {
        "text": "Mixed, and reported as such in the evidence (obligations = proved ones only; the bounded family is listed under coverage.bounded and never "
                "counted as proved). Bounded check of the real compute_delta/_walk_diff/apply_delta/_set_path/_del_path on "
                "symbolic JSON trees up to depth 2 x 2 keys per level (203 shape pairs in the quick tier): round trip, inputs untouched, "
                "delta sections, delta empty iff equal; proved lemma path_codec (split(join(ks)) == ks iff no key contains '.' and the path "
                "is non-empty; z3+cvc5 strings, unbounded). The round trip holds for dot-free non-empty keys and fails for '' / '.' keys "
                "(two known findings with native replays).",
        "note": "level is bounded exploration by the same symbolic semantics, not proof; keys are encoded as lists of dot-free words with "
                "one assumption on character order; write_snapshot_auto / read_snapshot / the delta branch of load_latest_snapshot "
                "(baseline present/missing/corrupt) are not under contract.",
        "design": "DESIGN.md section 3 C07",
    },
})
CLAIMED.update({
    "C01": {
        "text": "Engine-F clauses on the in-language nondeterminism sources: (1) every value derived from time.perf_counter()/time.time() in "
                "run_turn flows only into other timing locals or into record fields with masked timing keys (taint analysis over the AST); "
                "(2) no hash-order dependent iteration over a set in the listed stage functions (every set is iterated through sorted()); "
                "(3) no RNG / id() / hash() / datetime.now in the listed functions. The (-score, id) tie-breaks are postconditions of the "
                "C03/C11/C18 contracts. The dependence of scheduler yields on wall-clock time is a known finding.",
        "note": "This decides only 'no listed nondeterminism source reaches an observable sink'; bit-reproducibility of numpy/BLAS across "
                "processes, mtime-ordered snapshot discovery, real thread timing and the PYTHONHASHSEED claim beyond set iteration are not "
                "decided. The function list is declared in contracts/f_determinism.py; a new function outside it is not covered.",
        "design": "DESIGN.md section 3 C01",
    },
    "C14": {
        "text": "The per-function parts contracts can reach: _suggest_key is total for every JSON/YAML key type (str/int/float/bool/None; "
                "Engine V, with _lev's precondition 'both arguments are strings' as a call-site obligation), the unknown-key loops use keys "
                "only opaquely, the normaliser raises only ConfigError (every raise statement), and all API variants run the normaliser on "
                "their own argument and map ConfigError to the same message list.",
        "note": "Totality over arbitrary leaf values through the 1300-line normaliser, purity (no mutation of the input), the CLI exit code and "
                "'every accepted config is runnable' are NOT decided by this check; _lev is an assumed contract (string iteration is outside "
                "the engine's subset).",
        "design": "DESIGN.md section 3 C14",
    },
})

CLAIMED["C06"]["text"] += (" The edge re-keying loops of write_snapshot and load_latest_snapshot are verified as regions over insertion-ordered "
    "maps: the i-th written edge stays the i-th edge under its 'a→b' key (the order half of the byte-for-byte fixpoint), and _make_tmp's "
    "temp names are proved never to end in '.json' (so discovery cannot pick them).")
CLAIMED["C06"]["note"] = CLAIMED["C06"]["note"].replace("write_snapshot / load_latest_snapshot end to end and the byte-for-byte fixpoint are not under contract",
    "write_snapshot / load_latest_snapshot end to end are not under contract (the byte-for-byte fixpoint is decided only as: sanitiser idempotent + "
    "edge order preserved by both re-keying loops + json.dumps deterministic)")
CLAIMED["C07"]["text"] += (" Plus a verified frame clause (Engine F): read_snapshot, write_snapshot_auto, load_latest_snapshot, compute_delta, "
    "apply_delta and every same-module function they call keep no state between calls (no module-level mutable container, global rebinding or "
    "memoising decorator), so what the reader returns depends on its arguments and the files only.")
CLAIMED.update({
    "C11": {
        "text": "Contract-based deductive proof of the retrieval pipeline's functions: _filter_owner (owner scope, completeness, order), "
                "_filter_recent (window on well-formed timestamps), _filter_quarters, _rank_by_cosine (<= k, threshold, ordered by (-score, id), "
                "dropped rank after kept), _search_with_episodes for the exact / archive / unknown tiers and the cluster-tier region (top-m "
                "clusters by (-score, cluster id), pool = episodes of chosen clusters), MMR (_initial_order, mmr_select, mmr_reorder_full: "
                "permutations of range(n), len == min(k, n)), the interpolate-and-sort region of fuse (same multiset of ids, ordered), and "
                "rerank_with_gel (permutation, top-1 fixed, tail beyond k_max untouched, disabled = identity). All inputs, unbounded lists.",
        "note": "Floats are reals; cosine / _parse_iso / numpy vector ops are uninterpreted or assumed contracts; preconditions k >= 0 and "
                "clusters_top_m >= 0 (validator ranges; negative values slice from the end: see DESIGN findings); the cluster tier is a region "
                "contract, not end to end; fuse identity paths, apply_quality composition, owner_for_query, residual graph nudges "
                "(t2_semantic) and the LanceDB backend are not under contract.",
        "design": "DESIGN.md section 3 C11",
    },
    "C12": {
        "text": "Contract-based deductive proof of T1: _compute_decay (both formulas and ranges), _match_keywords (seeds = nodes with a matching "
                "non-empty label, both directions), t1_propagate's slice clamps (effective budgets = min(config, slice cap)), and region "
                "contracts of _t1_one_graph: label/tag collection (soundness direction), seeding, the propagation loop with perf caps off and "
                "on (pops <= budget and equal to the ghost count of heap pops, propagations <= relax_cap, touched nodes reachable within the "
                "radius and layer caps, every seed touched), the output region (ids strictly increasing, exactly the keys with |acc| >= EPS); "
                "frame lemmas over the AST of t1.py and of the store accessors it calls (never modifies the graph store; one violation "
                "repaired in /repo, fix f6f545d).",
        "note": "heapq is a trusted multiset model; floats are reals; converse direction of label collection (every matching node is seeded) is "
                "not discharged; decay "
                "preconditions distance >= 0 and alpha >= 0; the parallel fold's counters are C09's; cache interplay is C05.",
        "design": "DESIGN.md section 3 C12",
    },
})

CLAIMED["C01"]["text"] = ("Clauses on the in-language nondeterminism sources: (1) every value derived from time.perf_counter()/time.time() in "
    "run_turn flows only into other timing locals or into record fields with masked timing keys (taint analysis over the AST), and "
    "normalize_for_identity is proved (Engine V, all records) to zero/drop exactly those fields for every record of an identity stream, "
    "yielded or not; (2) no hash-order dependent iteration over a set in the listed stage functions; (3) module-wide, for every module "
    "on the turn path (engine, stages, orchestrator, memory, graph, io, adapters): no function uses the value of hash()/id()/random/"
    "uuid/secrets/os.urandom (existing sites whitelisted one by one with reasons). The (-score, id) tie-breaks are postconditions of the "
    "C03/C11/C18 contracts. The dependence of scheduler yields on wall-clock time is a known finding.")
CLAIMED["C01"]["note"] = ("Decides only 'no listed nondeterminism source reaches an observable sink'. Not decided: bit-reproducibility of numpy/BLAS, "
    "warm vs fresh process (module-level caches change the cache counters), thread timing of the parallel T1 cache, datetime.now() fallbacks when "
    "ctx.now is missing or a timestamp is unparsable, mtime-ordered snapshot discovery (DESIGN.md section 11).")
CLAIMED["C05"]["text"] += (" Attributes of the turn context read after the lookup (ctx.x / getattr(ctx, 'x')) must feed the key too: this clause "
    "found the per-slice cap ctx.slice_budgets['t2_k'] missing from the T2 key (repaired in /repo).")
CLAIMED["C11"]["text"] += (" Both sequential tier walks of t2_semantic are verified as regions against an abstract index: every search_tiered call "
    "passes the stage's sim_threshold, owner, k, the tier's own hint and the logical now (call-site preconditions), only served tiers are "
    "searched, at most k hits with distinct ids are collected.")
CLAIMED["C14"]["text"] = ("The per-function parts contracts can reach: _suggest_key is total for every JSON/YAML key type (Engine V; _lev's "
    "precondition is a call-site obligation); the unknown-key loops use keys only opaquely; the normaliser raises only ConfigError (every raise "
    "statement); int(v)/float(v) of an untrusted leaf sit inside catch-all handlers (_coerce_int/_coerce_float: OverflowError cannot escape); "
    "purity as copy-on-normalise discipline: _ensure_dict/_deep_merge/_ensure_subdict return freshly built dicts and do not write their "
    "arguments, and in the normaliser every written container is a local bound only to fresh copies; all API variants run the normaliser on "
    "their own argument and map ConfigError to the same message list.")
CLAIMED["C14"]["note"] = ("Engine-F (AST, name-level) clauses except _suggest_key. NOT decided: totality over arbitrary leaf values through the "
    "1300-line normaliser beyond the coercion helpers, the CLI exit code, and 'every accepted config is runnable' -- the validator accepts "
    "values it never type-checks for several allowed keys (DESIGN.md section 11); _lev is an assumed contract.")
CLAIMED["C18"]["text"] += (" NaN scores: observe_retrieval on an item list of shape [(a, nan), (b, s)] never uses the NaN item (no pair, no edge written).")
CLAIMED["C18"]["note"] = CLAIMED["C18"]["note"].replace("NaN not modelled; spot-checked natively that NaN fails the threshold test", "NaN is a single concrete value, not part of the symbolic float sort: a change that lets NaN flow into a score list is undecided, see DESIGN section 10")
CLAIMED["C12"]["text"] += (" The T1 stage-cache key clause (key built from the slice-clamped budgets) is registered for C12 as well: a cache hit must not bypass a tighter per-slice cap.")

CLAIMED["C07"]["text"] += (" The disk half is under contract (Engine V, proof, all inputs) against an abstract snapshot directory: read_snapshot (by path and "
    "by etag) reconstructs a delta only from the baseline file named by the delta's own header found in the baseline directory, and with the "
    "baseline missing returns the sibling/full file's payload or {} -- never the delta body and never a reconstruction; write_snapshot_auto "
    "writes exactly one file: a delta (header naming baseline and target, body = compute_delta(baseline payload, payload)) iff delta mode was "
    "requested and the baseline full file exists, otherwise a full file with the whole payload; the delta branch of load_latest_snapshot "
    "(region) reconstructs from the named baseline or reports absence (loaded=False) -- one violation repaired in /repo.")
CLAIMED["C07"]["note"] = ("The round-trip law itself is bounded exploration (same symbolic semantics, keys encoded as lists of dot-free words), not proof, and "
    "fails for '' / '.' keys (known findings). In the disk contracts _find_snapshot_file, _read_header_payload and _write_lines are assumed "
    "contracts over ghost files (what json.loads / zstd / the atomic writer do is C08 / not modelled), apply_delta / compute_delta are "
    "uninterpreted functions, os.path.join is uninterpreted with one stated fact; corrupt baselines (unparsable JSON: an exception of "
    "_read_header_payload; a baseline truncated to its header line is parsed as a body) are not under contract.")

CLAIMED["C02"]["text"] += (" The metrics gate predicate (both copies: engine/util/metrics.py:gate_on, stages/t2/config.py:metrics_gate_on) is verified "
    "(Engine V, every JSON-like cfg) to be true exactly when perf.enabled and perf.metrics.report_memory are both truthy, and the cache-hit "
    "metric updates of the T2 stage are dominated by it.")
CLAIMED.update({
    "C13": {
        "text": "Contract-based deductive proof of the planner, dialogue and sanitiser functions over a Dyn model of JSON-like values (every bundle / "
                "every string / every JSON value): deliberate (len(ops) <= max(min(per-turn cap, per-slice cap), 0), Speak first, intent follows the "
                "thresholds, RequestRetrieve only below tau_low, EditGraph caps, bundle not mutated), _policy_thresholds, _topic_labels_from_bundle, "
                "_edit_nodes_from_bundle; rag_once (the retrieve callback is called at most once -- ghost call counter, also on exceptional "
                "exits --, 0 times when already used or not requested, new ops within cap, plan/bundle unchanged) plus Engine-F clauses on run_turn "
                "(single rag_once site, not in a loop, gated by requested_retrieve and max_rag_loops >= 1); both copies of _truncate_to_tokens and "
                "speak (utterance tokens <= max(resolved budget, 0), never raises); _coerce_bool, _strip_triple_fences, parse_and_validate (never "
                "raises for any input incl. exceptions inside generator bodies; accepted => single dict within the documented size limits), "
                "sanitize_plan (never raises).",
        "note": "Dyn (pyvc/dyn.py) is a trusted model of JSON-like values; json.loads returns an arbitrary Dyn or raises (no relation between text and "
                "value assumed); whitespace split/join obey four stated axioms; rag_once and speak are proved for assembled bundles (wf_plan_bundle / "
                "wf_dialog_bundle as named preconditions) and caps >= 0 (negative caps slice from the end: outside the validated config space); "
                "speak's totality inside its comprehension bodies rests on a recorded assumption; llm_speak and the LLM adapter are not under "
                "contract; purity of the planner is decided only as 'inputs not mutated + no nondeterminism source (C01 clause)'.",
        "design": "DESIGN.md section 3 C13",
    },
})

CLAIMED["C06"]["text"] += (" Schema marker (Engine F): the frozen constant SCHEMA_VERSION == 'v1' is in write_snapshot's payload literal and is not removed "
    "before the write; both writers write the sidecar with schema_version=SCHEMA_VERSION.")
for _p in ("C03", "C09", "C11", "C13", "C15", "C18"):
    CLAIMED[_p]["note"] += (" Validator ranges cited as preconditions are tied to the code by the clauses validator-range-enforced:<path> "
                            "(the normaliser rejects values outside the cited range; message-level check).")

# ---- additions of the extension round (round-4 seeds)
CLAIMED["C17"]["text"] += (" Stage-side clamps: _derive_budgets (the slice budgets are exactly the configured scheduler.budgets entries, "
    "int-converted, None/absent left out, plus quantum_ms default 20; every JSON-like cfg), the use-only clamp of t2_semantic (region: used "
    "hits = leading min(max(cap,0), n) hits, all hits without a cap), the hand-over of the t3_ops cap into the plan bundle (assemble_bundle "
    "region), T1's slice clamps (t1_propagate region, shared with C12) and the planner's min(per-turn, per-slice) op cap (deliberate, shared "
    "with C13); Engine-F: yields only at stage boundaries, slice budgets removed when the scheduler is off.")
CLAIMED["C17"]["note"] = CLAIMED["C17"]["note"].replace(" Stage-side budget clamps and run_turn yield sites are not covered by this check yet.",
    " _get_cfg (namespace flattening) is an assumed contract in _derive_budgets; the per-graph summing of T1 counters before the yield test is not under contract.")
CLAIMED["C12"]["text"] += (" The spreading rule is stated at cut points of the propagation loop (proved on every path, perf caps off and on): a popped "
    "entry is left unexpanded only when visited / layer cap / node budget / no out-edges / every out-edge beyond the radius or layer cap; an "
    "out-edge is passed over only beyond those caps or when |w x weight x multiplier x decay| < EPS; the contribution added is "
    "w x weight x multiplier(rel, default 0.6) x decay.")
CLAIMED["C04"]["text"] += (" In on-apply mode every configured namespace is invalidated on every committed turn, whatever the store calls "
    "answered (only a raising cache manager cuts the walk short).")
CLAIMED["C05"]["text"] += (" Half (i), consumer side: no value shared with the T1 cache (the per-graph result list that is stored / returned on a "
    "hit) is mutated or adopted as a mutable accumulator by t1_propagate (sequential loop and parallel merge).")
CLAIMED["C06"]["text"] += (" write_snapshot's meta-sync block (region, structural anchor): after re-keying, gel.meta.edges_count is the size of "
    "the re-keyed edge map and the schema tag is present (meta present / absent), which is what the loader recomputes -- second half of the "
    "write-load-write fixpoint for graphs whose edges merge under re-keying. Discovery orders state_*.json / *.json candidates by the raw "
    "modification time (Engine F).")
CLAIMED["C01"]["text"] += (" Snapshot discovery orders mtime-ranked candidates by the raw modification time (a truncated key would let "
    "wall-clock speed decide which snapshot a boot loads).")
CLAIMED["C01"]["text"] += (" The tie-break contracts on the turn path are run by this check as well: _rank_by_cosine ((-score, id) order), "
    "_match_keywords (seeds in sorted label order), the output region of _t1_one_graph (touched nodes in strictly increasing id order).")
CLAIMED["C20"]["text"] += (" The structural half of the store / cache-manager fail-soft is run by this check too: every store call and every "
    "cache-manager call of apply_changes sits inside a catch-all handler.")
CLAIMED["C07"]["text"] += (" A further bounded family has JSON null leaves (a key that is present and holds null is not an absent key).")
CLAIMED["C14"]["note"] += (" A value-dependent skip of a range check (explicit null accepted and left in the normalised config: seed C14-E) is not detected.")
CLAIMED["C02"]["text"] += (" Value flow: the persistence layer (clematis/engine/snapshot.py, which runs whatever the gates say) reads no "
    "validator-accepted key of the graph / perf / scheduler subtrees (accepted-key sets read from configs/validate.py on every run).")
CLAIMED["C10"]["text"] += (" The capture path of a compute phase is under contract too (shared with C16): LogMux.write/dump/clear (append in "
    "call order, never raises, no capacity), append_jsonl and write_or_buffer (captured xor written; the captured record is an owned copy of "
    "the caller's dict -- one defect repaired in /repo), flush (every pair once, in order).")
CLAIMED["C16"]["text"] += (" Capture ownership (Engine F): append_jsonl and write_or_buffer hand an active LogMux an owned copy of the record "
    "(write_or_buffer did not: repaired in /repo).")
CLAIMED["C11"]["text"] += (" items_for_fusion: one fusion candidate per hit, in order, id/text carried, surrogate score total - rank (a hit that "
    "is not made a candidate would disappear from the reranked list).")
CLAIMED["C11"]["note"] = CLAIMED["C11"]["note"].replace("apply_quality composition", "apply_quality composition (only its input adapter items_for_fusion is under contract)")
PENDING_REASON = "check not built yet (construction in progress, see DESIGN.md section 3)"
NA = {}

m = {
    "version": 1,
    "setup_cmd": "python3-vt -m compileall -q pyvc contracts || true",
    "hooks": {
        "guard": "CLEMATIS3_VERIF",
        "enable": "no hooks are needed: checks read /repo sources with ast and run the real code only for replay",
        "baseline_off_cmd": "cd /repo && /venv/bin/python -m pytest -ra -q -p no:cacheprovider --timeout=900 --continue-on-collection-errors",
        "source_commits": [],
        "add_only": True,
    },
    "engines": [{"name": "pyvc", "path": "pyvc/", "serves_properties": sorted(CLAIMED),
                 "kind_free_text": "home-made deductive verifier for a Python subset: symbolic execution of the real AST of /repo "
                                   "functions against sidecar contracts (contracts/*.py), VCs discharged by z3 (cvc5/z3-new fallback)"}],
    "checks": [],
    "notes": "see DESIGN.md; exit codes of ./check: 0 held, 1 violation, 2 undecided (engine limitation), 3 checker crash",
    "not_applicable": [],
}
for pid in ALL:
    if pid in CLAIMED:
        c = CLAIMED[pid]
        m["checks"].append({
            "property_id": pid,
            "quick_cmd": "./check %s --tier quick" % pid,
            "thorough_cmd": "./check %s --tier thorough" % pid,
            "evidence_file": "evidence/%s.json" % pid,
            "replay_cmd_template": "./check --replay {path}",
            "engine": "pyvc",
            "level_claimed": {"category": c.get("category", "proof"), "text": c["text"], "design_ref": c["design"]},
            "level_note": c["note"],
            "technique": "contract-based deductive verification (pre/postconditions, loop invariants, lemmas; VCs from the real AST, z3/cvc5)",
        })
    else:
        m["not_applicable"].append({"property_id": pid, "reason": NA.get(pid, PENDING_REASON)})
with open(os.path.join(ROOT, "MANIFEST.json"), "w") as f:
    json.dump(m, f, indent=1)
print("claimed", sorted(CLAIMED), "na", len(m["not_applicable"]))
