#!/usr/bin/env python3
"""regenerates MANIFEST.json from the table below (keeps it valid at all times)."""
import json, os
ROOT = os.path.dirname(os.path.dirname(os.path.abspath(__file__)))
ALL = ["C%02d" % i for i in range(1, 21)]

CLAIMED = {
    "C15": {
        "text": "Contract-based deductive proof: representation invariants (entry/byte caps, exact byte accounting, duplicate-free "
                "LRU order, queue = key set) are preconditions and postconditions of every public operation of LRUBytes, "
                "DeterministicLRUSet, DeterministicLRU (both copies) and DedupeRing, verified from an arbitrary well-formed state "
                "for all keys/costs/capacities with inductive loop invariants (no bound). This is exactly 'after every prefix of "
                "every operation sequence'.",
        "note": "Trusted: pyvc semantics of the subset, z3/cvc5, finite-map lemmas (sum over a map, pigeonhole) instantiated not proved, "
                "on_evict callbacks may raise Exception and have no other effect. Not decided: real thread interleavings "
                "(lock wrappers are checked for lock discipline only), TTL vs a non-injected clock.",
        "design": "DESIGN.md section 3 C15",
    },
    "C17": {
        "text": "Contract-based deductive proof of next_turn / on_yield / init_scheduler_state / _should_yield against postconditions "
                "taken from the property statement (eligibility, lex-min reset, round-robin first eligible, fair-queue max tier then lex, "
                "purity, yield-reason precedence), plus the starvation bound 2(N-1)mct+1 as an inductive lemma over those contracts "
                "for N=1..6 agents with symbolic allowance.",
        "note": "Precondition: agent ids are non-empty strings. Lemma is per N (1..6), not for unbounded N. x//y with symbolic divisor is "
                "an uninterpreted function. Stage-side budget clamps and run_turn yield sites are not covered by this check yet.",
        "design": "DESIGN.md section 3 C17",
    },
}
PENDING_REASON = "check not built yet (construction in progress, see DESIGN.md section 3)"
NA = {}

m = {
    "version": 1,
    "setup_cmd": "python3-vt -m compileall -q pyvc contracts || true",
    "hooks": {
        "guard": "CLEMATIS3_VERIF",
        "enable": "no hooks are needed: checks read /repo sources with ast and run the real code only for replay",
        "baseline_off_cmd": "cd /repo && /venv/bin/python -m pytest -ra -q -p no:cacheprovider --timeout=900 --continue-on-collection-errors",
        "source_commits": [],
        "add_only": True,
    },
    "engines": [{"name": "pyvc", "path": "pyvc/", "serves_properties": sorted(CLAIMED),
                 "kind_free_text": "home-made deductive verifier for a Python subset: symbolic execution of the real AST of /repo "
                                   "functions against sidecar contracts (contracts/*.py), VCs discharged by z3 (cvc5/z3-new fallback)"}],
    "checks": [],
    "notes": "see DESIGN.md; exit codes of ./check: 0 held, 1 violation, 2 undecided (engine limitation), 3 checker crash",
    "not_applicable": [],
}
for pid in ALL:
    if pid in CLAIMED:
        c = CLAIMED[pid]
        m["checks"].append({
            "property_id": pid,
            "quick_cmd": "./check %s --tier quick" % pid,
            "thorough_cmd": "./check %s --tier thorough" % pid,
            "evidence_file": "evidence/%s.json" % pid,
            "replay_cmd_template": "./check --replay {path}",
            "engine": "pyvc",
            "level_claimed": {"category": "proof", "text": c["text"], "design_ref": c["design"]},
            "level_note": c["note"],
            "technique": "contract-based deductive verification (pre/postconditions, loop invariants, lemmas; VCs from the real AST, z3/cvc5)",
        })
    else:
        m["not_applicable"].append({"property_id": pid, "reason": NA.get(pid, PENDING_REASON)})
with open(os.path.join(ROOT, "MANIFEST.json"), "w") as f:
    json.dump(m, f, indent=1)
print("claimed", sorted(CLAIMED), "na", len(m["not_applicable"]))
