#!/usr/bin/env python3
"""regenerates MANIFEST.json from the table below (keeps it valid at all times)."""
import json, os
ROOT = os.path.dirname(os.path.dirname(os.path.abspath(__file__)))
ALL = ["C%02d" % i for i in range(1, 21)]

CLAIMED = {
    "C15": {
        "text": "Contract-based deductive proof: representation invariants (entry/byte caps, exact byte accounting, duplicate-free "
                "LRU order, queue = key set) are preconditions and postconditions of every public operation of LRUBytes, "
                "DeterministicLRUSet, DeterministicLRU (both copies) and DedupeRing, verified from an arbitrary well-formed state "
                "for all keys/costs/capacities with inductive loop invariants (no bound). This is exactly 'after every prefix of "
                "every operation sequence'.",
        "note": "Trusted: pyvc semantics of the subset, z3/cvc5, finite-map lemmas (sum over a map, pigeonhole) instantiated not proved, "
                "on_evict callbacks may raise Exception and have no other effect. Not decided: real thread interleavings "
                "(lock wrappers are checked for lock discipline only), TTL vs a non-injected clock.",
        "design": "DESIGN.md section 3 C15",
    },
    "C17": {
        "text": "Contract-based deductive proof of next_turn / on_yield / init_scheduler_state / _should_yield against postconditions "
                "taken from the property statement (eligibility, lex-min reset, round-robin first eligible, fair-queue max tier then lex, "
                "purity, yield-reason precedence), plus the starvation bound 2(N-1)mct+1 as an inductive lemma over those contracts "
                "for N=1..6 agents with symbolic allowance.",
        "note": "Precondition: agent ids are non-empty strings. Lemma is per N (1..6), not for unbounded N. x//y with symbolic divisor is "
                "an uninterpreted function. Stage-side budget clamps and run_turn yield sites are not covered by this check yet.",
        "design": "DESIGN.md section 3 C17",
    },
}
CLAIMED.update({
    "C03": {
        "text": "Contract-based deductive proof of every function of the meta-filter (t4.py): _combine_by_ckey (sum per canonical key via ghost recursive "
                "sums, strictly increasing keys, only proposed targets), _collect_blocked_ops (blocked iff in cooldown), _novelty_clamp "
                "(elementwise clip, exact count), _l2_scale (uniform scaling, squared norm <= cap^2 via an inductive ghost lemma), _churn_cap "
                "(top-K by (-|d|, key), kept are inputs, distinct targets preserved), _get_op_kind, _min_optional_int, and the composition "
                "t4_filter: canonical order, one delta per target, novelty cap, churn cap, no cooldown origin, only proposed targets, rejected "
                "ops ascending and complete, pipeline value clip(sum)*scale, arguments untouched. All inputs, unbounded lists.",
        "note": "Floats are mathematical reals (the float duplicate-sum order dependence is therefore invisible here and is documented in DESIGN.md); "
                "ProposedDelta/op shapes as declared; _canonical_key is opaque to callers (a function of the three target fields; injectivity on "
                "':'-free attrs is a separate string lemma, not needed for these clauses); the L2 bound is proved for _l2_scale's output and "
                "carried to the approved list only as 'approved is a sub-permutation of the scaled list' (sum over a sub-multiset not proved).",
        "design": "DESIGN.md section 3 C03",
    },
    "C04": {
        "text": "Contract-based deductive proof of apply_changes over an abstract store (function-valued parameter that may raise; every call "
                "recorded in ghost state): batch first with exactly the approved list, no further call if it returned, otherwise each delta once "
                "in order continuing past failures; version bumped exactly once (int+1 or restart at '1'); invalidation only in on-apply mode, "
                "in configured order; snapshot exactly on the cadence with the new version; no exception escapes. Plus Engine-F clauses on "
                "run_turn: t4_filter/apply_changes/gel_tick/t4.jsonl/apply.jsonl are dominated by the kill switch, called once, approved list "
                "handed over unmodified.",
        "note": "write_snapshot is an assumed contract here (records the request, does not raise); int(str) parsing is abstract except on digit "
                "strings; what a concrete store does with the deltas is not decided.",
        "design": "DESIGN.md section 3 C04",
    },
    "C02": {
        "text": "Engine-F gate-dominance clauses over the real AST: every effectful entry point of a gated feature (T1/T2 run_parallel, GEL observe/"
                "tick/merge/split/promotion and gel.jsonl, scheduler events and boundary checks, reflection compute) is reachable only with its "
                "gate open (z3 on the boolean abstraction of the guards on the path); gate variables are bound once to the documented "
                "expression; slice budgets are removed from ctx when the scheduler is off.",
        "note": "Decides inertness only as 'gated code is unreachable with the gate closed'. The relational claim (equal logs/state with and "
                "without the subtree) and value flow of gated config into ungated code are not decided. Dynamic indirections taken at face value.",
        "design": "DESIGN.md section 3 C02",
    },
    "C19": {
        "text": "Engine-F clauses: reflection compute is dominated by the triple gate (not dry-run, allow_reflection, plan flag), called once, "
                "inside a catch-all handler; on error and on wall-budget overrun the result carries no memory entries; the writer runs only "
                "with a non-empty result, telemetry only with a result; compute, write and telemetry cannot escape run_turn.",
        "note": "Per-function claims of reflect()/write_reflection_entries (caps, token limit, deterministic ids) are not yet under contract in "
                "this check.",
        "design": "DESIGN.md section 3 C19",
    },
    "C20": {
        "text": "Engine-F no-escape clauses for every declared fail-soft site: boot snapshot load, GEL merge/split/promotion (and their candidate "
                "generators), reflection compute/write/telemetry, LLM adapter construction, hybrid rerank / fusion / MMR in apply_quality, "
                "sidecar write; store apply errors and cache invalidation errors are covered by the C04 contract of apply_changes "
                "(raises none with a raising store).",
        "note": "Decides 'an exception at the site cannot leave the enclosing function'. Equality of the emitted records with a fault-free run "
                "is not decided. Handlers are required to contain no raise statement; calls inside handlers are not analysed further.",
        "design": "DESIGN.md section 3 C20",
    },
})
PENDING_REASON = "check not built yet (construction in progress, see DESIGN.md section 3)"
NA = {}

m = {
    "version": 1,
    "setup_cmd": "python3-vt -m compileall -q pyvc contracts || true",
    "hooks": {
        "guard": "CLEMATIS3_VERIF",
        "enable": "no hooks are needed: checks read /repo sources with ast and run the real code only for replay",
        "baseline_off_cmd": "cd /repo && /venv/bin/python -m pytest -ra -q -p no:cacheprovider --timeout=900 --continue-on-collection-errors",
        "source_commits": [],
        "add_only": True,
    },
    "engines": [{"name": "pyvc", "path": "pyvc/", "serves_properties": sorted(CLAIMED),
                 "kind_free_text": "home-made deductive verifier for a Python subset: symbolic execution of the real AST of /repo "
                                   "functions against sidecar contracts (contracts/*.py), VCs discharged by z3 (cvc5/z3-new fallback)"}],
    "checks": [],
    "notes": "see DESIGN.md; exit codes of ./check: 0 held, 1 violation, 2 undecided (engine limitation), 3 checker crash",
    "not_applicable": [],
}
for pid in ALL:
    if pid in CLAIMED:
        c = CLAIMED[pid]
        m["checks"].append({
            "property_id": pid,
            "quick_cmd": "./check %s --tier quick" % pid,
            "thorough_cmd": "./check %s --tier thorough" % pid,
            "evidence_file": "evidence/%s.json" % pid,
            "replay_cmd_template": "./check --replay {path}",
            "engine": "pyvc",
            "level_claimed": {"category": "proof", "text": c["text"], "design_ref": c["design"]},
            "level_note": c["note"],
            "technique": "contract-based deductive verification (pre/postconditions, loop invariants, lemmas; VCs from the real AST, z3/cvc5)",
        })
    else:
        m["not_applicable"].append({"property_id": pid, "reason": NA.get(pid, PENDING_REASON)})
with open(os.path.join(ROOT, "MANIFEST.json"), "w") as f:
    json.dump(m, f, indent=1)
print("claimed", sorted(CLAIMED), "na", len(m["not_applicable"]))
