#!/usr/bin/env python3
"""regenerates MANIFEST.json from the table below (keeps it valid at all times)."""
import json, os
ROOT = os.path.dirname(os.path.dirname(os.path.abspath(__file__)))
ALL = ["C%02d" % i for i in range(1, 21)]

CLAIMED = {
    "C15": {
        "text": "Contract-based deductive proof: representation invariants (entry/byte caps, exact byte accounting, duplicate-free "
                "LRU order, queue = key set) are preconditions and postconditions of every public operation of LRUBytes, "
                "DeterministicLRUSet, DeterministicLRU (both copies) and DedupeRing, verified from an arbitrary well-formed state "
                "for all keys/costs/capacities with inductive loop invariants (no bound). This is exactly 'after every prefix of "
                "every operation sequence'.",
        "note": "Trusted: pyvc semantics of the subset, z3/cvc5, finite-map lemmas (sum over a map, pigeonhole) instantiated not proved, "
                "on_evict callbacks may raise Exception and have no other effect. Not decided: real thread interleavings "
                "(lock wrappers are checked for lock discipline only), TTL vs a non-injected clock.",
        "design": "DESIGN.md section 3 C15",
    },
    "C17": {
        "text": "Contract-based deductive proof of next_turn / on_yield / init_scheduler_state / _should_yield against postconditions "
                "taken from the property statement (eligibility, lex-min reset, round-robin first eligible, fair-queue max tier then lex, "
                "purity, yield-reason precedence), plus the starvation bound 2(N-1)mct+1 as an inductive lemma over those contracts "
                "for N=1..6 agents with symbolic allowance.",
        "note": "Precondition: agent ids are non-empty strings. Lemma is per N (1..6), not for unbounded N. x//y with symbolic divisor is "
                "an uninterpreted function. Stage-side budget clamps and run_turn yield sites are not covered by this check yet.",
        "design": "DESIGN.md section 3 C17",
    },
}
CLAIMED.update({
    "C03": {
        "text": "Contract-based deductive proof of every function of the meta-filter (t4.py): _combine_by_ckey (sum per canonical key via ghost recursive "
                "sums, strictly increasing keys, only proposed targets), _collect_blocked_ops (blocked iff in cooldown), _novelty_clamp "
                "(elementwise clip, exact count), _l2_scale (uniform scaling, squared norm <= cap^2 via an inductive ghost lemma), _churn_cap "
                "(top-K by (-|d|, key), kept are inputs, distinct targets preserved), _get_op_kind, _min_optional_int, and the composition "
                "t4_filter: canonical order, one delta per target, novelty cap, churn cap, no cooldown origin, only proposed targets, rejected "
                "ops ascending and complete, pipeline value clip(sum)*scale, arguments untouched. All inputs, unbounded lists.",
        "note": "Floats are mathematical reals (the float duplicate-sum order dependence is therefore invisible here and is documented in DESIGN.md); "
                "ProposedDelta/op shapes as declared; _canonical_key is opaque to callers (a function of the three target fields; injectivity on "
                "':'-free attrs is a separate string lemma, not needed for these clauses); the L2 bound is proved for _l2_scale's output and "
                "carried to the approved list only as 'approved is a sub-permutation of the scaled list' (sum over a sub-multiset not proved).",
        "design": "DESIGN.md section 3 C03",
    },
    "C04": {
        "text": "Contract-based deductive proof of apply_changes over an abstract store (function-valued parameter that may raise; every call "
                "recorded in ghost state): batch first with exactly the approved list, no further call if it returned, otherwise each delta once "
                "in order continuing past failures; version bumped exactly once (int+1 or restart at '1'); invalidation only in on-apply mode, "
                "in configured order; snapshot exactly on the cadence with the new version; no exception escapes. Plus Engine-F clauses on "
                "run_turn: t4_filter/apply_changes/gel_tick/t4.jsonl/apply.jsonl are dominated by the kill switch, called once, approved list "
                "handed over unmodified.",
        "note": "write_snapshot is an assumed contract here (records the request, does not raise); int(str) parsing is abstract except on digit "
                "strings; what a concrete store does with the deltas is not decided.",
        "design": "DESIGN.md section 3 C04",
    },
    "C02": {
        "text": "Engine-F gate-dominance clauses over the real AST: every effectful entry point of a gated feature (T1/T2 run_parallel, GEL observe/"
                "tick/merge/split/promotion and gel.jsonl, scheduler events and boundary checks, reflection compute) is reachable only with its "
                "gate open (z3 on the boolean abstraction of the guards on the path); gate variables are bound once to the documented "
                "expression; slice budgets are removed from ctx when the scheduler is off.",
        "note": "Decides inertness only as 'gated code is unreachable with the gate closed'. The relational claim (equal logs/state with and "
                "without the subtree) and value flow of gated config into ungated code are not decided. Dynamic indirections taken at face value.",
        "design": "DESIGN.md section 3 C02",
    },
    "C19": {
        "text": "Engine-F clauses: reflection compute is dominated by the triple gate (not dry-run, allow_reflection, plan flag), called once, "
                "inside a catch-all handler; on error and on wall-budget overrun the result carries no memory entries; the writer runs only "
                "with a non-empty result, telemetry only with a result; compute, write and telemetry cannot escape run_turn.",
        "note": "Per-function claims of reflect()/write_reflection_entries (caps, token limit, deterministic ids) are not yet under contract in "
                "this check.",
        "design": "DESIGN.md section 3 C19",
    },
    "C20": {
        "text": "Engine-F no-escape clauses for every declared fail-soft site: boot snapshot load, GEL merge/split/promotion (and their candidate "
                "generators), reflection compute/write/telemetry, LLM adapter construction, hybrid rerank / fusion / MMR in apply_quality, "
                "sidecar write; store apply errors and cache invalidation errors are covered by the C04 contract of apply_changes "
                "(raises none with a raising store).",
        "note": "Decides 'an exception at the site cannot leave the enclosing function'. Equality of the emitted records with a fault-free run "
                "is not decided. Handlers are required to contain no raise statement; calls inside handlers are not analysed further.",
        "design": "DESIGN.md section 3 C20",
    },
})
CLAIMED.update({
    "C05": {
        "text": "Engine-F key-determinacy clauses (half (ii) of cache transparency): for the T1 stage cache, the T2 stage cache and the turn-level "
                "cache, every declared input of the fresh computation that is read after the lookup, and every configuration key read after "
                "the lookup, feeds the key expression (name-level dependency closure over the bindings preceding the lookup, computed from "
                "the AST on every run); the graph etag used as version component hashes graph content. Half (i) (a hit returns the value "
                "stored under an equal key) is the C15 container contracts. Four violated clauses were repaired in /repo (fix: commits), "
                "two are recorded as known findings.",
        "note": "Name-level closure: a whole object (ctx, state, index) counts as feeding the key when any value derived from it does; "
                "index_version() and state.version_etag are trusted to change with content; TTL vs the real clock, memory pressure and the "
                "relational claim over mutation histories are not decided.",
        "design": "DESIGN.md section 3 C05",
    },
    "C09": {
        "text": "Contract-based deductive proof of run_parallel over opaque tasks with an arbitrary failing subset: both branches hand merge_fn "
                "every (key, result) once, ordered by (order_key, submit index); failures: merge not called, sequential stops at the first, "
                "the pool reports every failure sorted; all run_parallel call sites in /repo satisfy its precondition (AST obligations); "
                "merge_tier_hits_across_shards_dict (<= k distinct ids, tier order, (-qscore,id)), _iter_shards_for_t2 (contiguous partition).",
        "note": "ThreadPoolExecutor.submit/Future.result is a trusted model (results read in submit order). Equality of the parallel and "
                "sequential T1/T2 stage results (fold equivalence, shard path vs. tier walk) is NOT decided by this check; real thread "
                "interleavings are not modelled. Precondition k >= 1 on the shard merge.",
        "design": "DESIGN.md section 3 C09",
    },
    "C10": {
        "text": "Contract-based deductive proof of _select_independent_batch (subsequence, <= max(1,workers), pairwise disjoint graph sets, "
                "greedy-maximal), _resolve_graphs_for_agent (never raises), _sort_turn_buffers (stable permutation by (turn, slice)), and "
                "the two drain-flush-retry regions of _run_agents_parallel_batch against the LogStager interface: record staged last, "
                "whole buffer flushed in drain order on back-pressure, nothing lost or duplicated, no exception for any byte limit >= 1.",
        "note": "The LogStager interface used by the regions is an assumed contract here (the class itself is under contract in C16). "
                "Equality of batch and sequential execution with the real stage pipeline is not decided (the dry-run path skips T3: see DESIGN).",
        "design": "DESIGN.md section 3 C10",
    },
})
CLAIMED.update({
    "C08": {
        "text": "Contract-based deductive proof of _make_tmp, atomic_write_bytes (Path and str destinations, KeyboardInterrupt and short-write "
                "variants), atomic_replace (retry loop with an unbounded invariant), atomic_write_text/json over an abstract file system in "
                "which every I/O primitive forks into a failing path: the crash invariant content(final) in {old, complete new} is proved at "
                "entry and after every effect (including a write killed half way), the only writer of final is os.replace(tmp, final), on "
                "normal exit final == new and no temp is left, every new file other than final is one of the call's own temps, whose names "
                "(lemma, z3 strings) never look like snapshot or log files; callers reach their destination only through atomic_write_*.",
        "note": "The file system is a trusted model (pyvc/fsmodel.py): os.replace atomic and all-or-nothing, raw write all-or-error unless the "
                "short_write option is on, buffered handles complete-or-raise. Durability after power loss, directories/permissions/symlinks "
                "and real concurrent readers are not modelled. Preconditions: tmp != final, retries >= 1, backoff_ms >= 0.",
        "design": "DESIGN.md section 3 C08",
    },
    "C16": {
        "text": "Contract-based deductive proof of normalize_for_identity (only the documented volatile keys of the identity streams change, "
                "input not mutated, idempotent), LogStager (bytes = sum of estimates, back-pressure iff buffered and over the limit, sorted "
                "drain, drain-then-stage never raises for any byte limit), default_key_for, _append_jsonl_unbuffered (one 'ab' open, one "
                "write of one LF-terminated line), append_jsonl / LogMux / flush (captured xor written, in order), rewrite_jsonl (line i = "
                "canonical dump of record i through atomic_write_text), rotate_one (generations shift by one, only the oldest dropped, also "
                "when a rename fails).",
        "note": "json.dumps is an uninterpreted function with the trusted fact 'no raw LF/CR in the output'; bytes are modelled as text; "
                "open/write and the rotation name space are small trusted models; O_APPEND atomicity and concurrent writers from several "
                "processes are assumed, not proved; rotate_one's failure clauses are proved for 1 and 2 kept generations.",
        "design": "DESIGN.md section 3 C16",
    },
})
PENDING_REASON = "check not built yet (construction in progress, see DESIGN.md section 3)"
NA = {}

m = {
    "version": 1,
    "setup_cmd": "python3-vt -m compileall -q pyvc contracts || true",
    "hooks": {
        "guard": "CLEMATIS3_VERIF",
        "enable": "no hooks are needed: checks read /repo sources with ast and run the real code only for replay",
        "baseline_off_cmd": "cd /repo && /venv/bin/python -m pytest -ra -q -p no:cacheprovider --timeout=900 --continue-on-collection-errors",
        "source_commits": [],
        "add_only": True,
    },
    "engines": [{"name": "pyvc", "path": "pyvc/", "serves_properties": sorted(CLAIMED),
                 "kind_free_text": "home-made deductive verifier for a Python subset: symbolic execution of the real AST of /repo "
                                   "functions against sidecar contracts (contracts/*.py), VCs discharged by z3 (cvc5/z3-new fallback)"}],
    "checks": [],
    "notes": "see DESIGN.md; exit codes of ./check: 0 held, 1 violation, 2 undecided (engine limitation), 3 checker crash",
    "not_applicable": [],
}
for pid in ALL:
    if pid in CLAIMED:
        c = CLAIMED[pid]
        m["checks"].append({
            "property_id": pid,
            "quick_cmd": "./check %s --tier quick" % pid,
            "thorough_cmd": "./check %s --tier thorough" % pid,
            "evidence_file": "evidence/%s.json" % pid,
            "replay_cmd_template": "./check --replay {path}",
            "engine": "pyvc",
            "level_claimed": {"category": "proof", "text": c["text"], "design_ref": c["design"]},
            "level_note": c["note"],
            "technique": "contract-based deductive verification (pre/postconditions, loop invariants, lemmas; VCs from the real AST, z3/cvc5)",
        })
    else:
        m["not_applicable"].append({"property_id": pid, "reason": NA.get(pid, PENDING_REASON)})
with open(os.path.join(ROOT, "MANIFEST.json"), "w") as f:
    json.dump(m, f, indent=1)
print("claimed", sorted(CLAIMED), "na", len(m["not_applicable"]))
