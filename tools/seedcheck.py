#!/usr/bin/env python3
"""Confirm seeded property-breaking changes and run the registered checks against them.

usage: seedcheck.py confirm <P> <V>     -- in the scratch worktree /tmp/seed_<P>: tests pass with the patch, the demo fails with
                                           it and passes without it; on success the change is stored as /verif/seeded/<P>-<V>/
       seedcheck.py detect <dir> [props] -- apply seeded/<dir>/patch.diff to /repo, run ./check for the property (and any
                                           extra properties), undo the patch, record the outcome in seeded/<dir>/detect.json
"""
import json
import os
import shutil
import subprocess
import sys

ROOT = os.path.dirname(os.path.dirname(os.path.abspath(__file__)))
PY = "/venv/bin/python"


def sh(cmd, cwd=None, env=None, timeout=3600):
    r = subprocess.run(cmd, shell=True, cwd=cwd, env=env, capture_output=True, text=True, timeout=timeout)
    return r.returncode, (r.stdout or "") + (r.stderr or "")


def confirm(P, V):
    wt = "/tmp/seed_%s" % P
    src = "/tmp/seed_%s_out/%s" % (P, V)
    patch = os.path.join(src, "patch.diff")
    out = {"property": P, "variant": V}
    rc, o = sh("git status --short | grep -v '^ M .logs\\|^ M .data\\|^ D .data' | head", cwd=wt)
    sh("git checkout -- . ", cwd=wt)
    rc, o = sh("git apply --check %s" % patch, cwd=wt)
    if rc != 0:
        out["error"] = "patch does not apply: " + o[-300:]
        return out
    env = dict(os.environ, PYTHONPATH=wt, REPO=wt)
    # demo without the change
    rc0, o0 = sh("%s %s %s" % (PY, os.path.join(src, "demo.py"), wt), cwd=src, env=env, timeout=900)
    sh("git apply %s" % patch, cwd=wt)
    rc1, o1 = sh("%s %s %s" % (PY, os.path.join(src, "demo.py"), wt), cwd=src, env=env, timeout=900)
    rct, ot = sh("%s -m pytest -q -p no:cacheprovider --timeout=900 --continue-on-collection-errors 2>&1 | tail -2" % PY, cwd=wt, timeout=3000)
    sh("git checkout -- . && git clean -fdq -e .venv 2>/dev/null; git checkout -- .", cwd=wt)
    out.update({"demo_without_rc": rc0, "demo_with_rc": rc1, "demo_with_tail": o1[-600:], "tests_tail": ot[-200:]})
    ok = rc0 == 0 and rc1 != 0 and "519 passed" in ot and "failed" not in ot
    out["confirmed"] = ok
    if ok:
        dst = os.path.join(ROOT, "seeded", "%s-%s" % (P, V))
        os.makedirs(dst, exist_ok=True)
        for f in ("patch.diff", "demo.py"):
            shutil.copy(os.path.join(src, f), os.path.join(dst, f))
        meta = {}
        try:
            meta = json.load(open(os.path.join(src, "meta.json")))
        except Exception:
            pass
        meta.update({"property": P, "variant": V,
                     "confirmed_by_me": {"worktree": wt, "tests": ot.strip()[-120:], "demo_with_change_exit": rc1,
                                         "demo_without_change_exit": rc0,
                                         "ran": "git apply patch.diff; pytest full suite; demo.py with and without the change"}})
        json.dump(meta, open(os.path.join(dst, "meta.json"), "w"), indent=1)
    return out


def detect(d, props):
    dst = os.path.join(ROOT, "seeded", d)
    patch = os.path.join(dst, "patch.diff")
    rc, o = sh("git status --short | head -3", cwd="/repo")
    if o.strip():
        return {"error": "/repo not clean: " + o}
    rc, o = sh("git apply %s" % patch, cwd="/repo")
    if rc != 0:
        return {"error": "patch does not apply to /repo: " + o[-300:]}
    res = {}
    try:
        for p in props:
            rc, o = sh("./check %s --tier quick --no-evidence --jobs 10" % p, cwd=ROOT, timeout=3000)
            lines = [l for l in o.splitlines() if l.startswith("VIOLATION") or l.startswith("FAILED OBLIGATION") or "ERRORS" in l or l.startswith("CRASH")]
            res[p] = {"exit": rc, "lines": lines[:12]}
    finally:
        sh("git checkout -- .", cwd="/repo")
    json.dump(res, open(os.path.join(dst, "detect.json"), "w"), indent=1)
    return res


def detectwt(d, props):
    """like detect, but on the scratch worktree /tmp/seed_<P> (VERIF_REPO), leaving /repo alone: for development"""
    dst = os.path.join(ROOT, "seeded", d)
    patch = os.path.join(dst, "patch.diff")
    wt = "/tmp/seed_%s" % d.split("-")[0]
    sh("git checkout -- .", cwd=wt)
    rc, o = sh("git apply %s" % patch, cwd=wt)
    if rc != 0:
        return {"error": "patch does not apply: " + o[-300:]}
    res = {}
    try:
        for p in props:
            rc, o = sh("./check %s --tier quick --no-evidence --jobs 8" % p, cwd=ROOT, timeout=3000,
                       env=dict(os.environ, VERIF_REPO=wt))
            lines = [l for l in o.splitlines() if l.startswith("VIOLATION") or l.startswith("FAILED OBLIGATION") or "ERRORS" in l or l.startswith("CRASH")]
            res[p] = {"exit": rc, "lines": lines[:12]}
    finally:
        sh("git checkout -- .", cwd=wt)
    rc, head = sh("git rev-parse --short HEAD", cwd=wt)
    for p in res:
        res[p]["mode"] = "patch applied to the scratch worktree %s (HEAD %s), check run with VERIF_REPO pointing at it" % (wt, head.strip())
    if os.environ.get("SEED_WRITE_DETECT"):
        json.dump(res, open(os.path.join(dst, "detect.json"), "w"), indent=1)
    return res


if __name__ == "__main__":
    if sys.argv[1] == "detectwt":
        d = sys.argv[2]
        print(json.dumps(detectwt(d, sys.argv[3:] or [d.split("-")[0]]), indent=1))
    elif sys.argv[1] == "confirm":
        print(json.dumps(confirm(sys.argv[2], sys.argv[3]), indent=1))
    else:
        d = sys.argv[2]
        props = sys.argv[3:] or [d.split("-")[0]]
        print(json.dumps(detect(d, props), indent=1))
