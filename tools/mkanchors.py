#!/usr/bin/env python3
"""Regenerate /verif/loop_anchors.json from the *pinned* /repo tree: for every function that has loop specifications
(contract `loops=` or R.loops), the header text of each of its loops in source order.  pyvc/verifier.loop_spec_for uses
it to re-attach loop invariants by header text when a function's loops no longer line up with the recorded ordinals.
Run with python3-vt from /verif after adding loop specifications (never at check time)."""
import json
import os
import sys

ROOT = os.path.dirname(os.path.dirname(os.path.abspath(__file__)))
sys.path.insert(0, ROOT)
from pyvc.run import load_registry      # noqa: E402
from pyvc import frontend               # noqa: E402

REG = load_registry()
keys = set(REG.loop_specs)
for c in REG.variants:
    if c.loops:
        keys.add(c.key)
# local names (with the text of their first binding) of every function under contract: lets the verifier recognise a
# pure rename of a local that a contract mentions (pyvc/verifier.local_renames)
lkeys = {c.key for c in REG.variants} | set(REG.loop_specs) | set(getattr(REG, "fn_locals", {}))
locs = {}
for k in sorted(lkeys):
    try:
        mod, cls, fn = frontend.find_function(k)
    except Exception:
        continue
    locs[k] = [[nm, txt] for nm, txt in frontend.local_bindings(fn)]
with open(os.path.join(ROOT, "local_anchors.json"), "w") as f:
    json.dump(locs, f, indent=0, sort_keys=True)
print("local anchors: functions", len(locs))
out = {}
for k in sorted(keys):
    try:
        mod, cls, fn = frontend.find_function(k)
    except Exception as ex:
        print("skip", k, ex)
        continue
    out[k] = [frontend.loop_header(l) for l in frontend.loops_in(fn)]
with open(os.path.join(ROOT, "loop_anchors.json"), "w") as f:
    json.dump(out, f, indent=1, sort_keys=True)
print("functions:", len(out), "loops:", sum(len(v) for v in out.values()))
